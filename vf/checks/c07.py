"""C07 extended semantics: exact and total on every weakly consistent base."""
from .. import forms, opsem, ref, scopes
from ..runner import Check
from .opcheck import CHUNK, WSIG2, alt_keys, nq_type, qsem2

ALLW = ("strong", "weak-finite", "weak-nofinite")
WEAK = ("weak-finite", "weak-nofinite")


class C07(Check):
    id = "C07"
    level = "exploration"
    cfgs = ("p", "z", "w-rc2", "w-z3", "lex-rc2", "lex-z3")
    rule = ("E-in, weakly=True, six operator/back-end combinations: (i) every weakly-but-not-strongly consistent "
            "one-conditional base over the 16 truth functions of {a,b} x all 264 queries of Q2, every strongly consistent "
            "one x 89 queries; (ii) one representative per conditional structure of all pairs over the 80-class "
            "alphabet, all four consistency classes that the mode accepts, x 89 queries; (iii) one representative per "
            "structure of all weakly-but-not-strongly consistent <=4-subsets of the 24 literal conditionals over {a,b,c} "
            "x type-level + literal queries; (iv) strongly consistent <=3-subsets x (1,1) type queries + literal queries "
            "(extended must coincide with strict). Oracle: the extended definitions (feasible worlds, finite layers, "
            "three vacuity rules) by brute force; an exception or non-bool is a violation. distinct_nontrivial = "
            "distinct (base, config, query) with a non-vacuous query and agreeing answers.")
    assumptions = ["reference model vf/ref.py (extended p-entailment cross-checked in setup against 'accepted by every "
                   "ranking model with an infinity class')", "inputs outside the named scopes are not covered"]

    def tasks(self):
        tier, seed = self.tier, self.seed
        quick = tier == "quick"
        out = []
        self.stats = {}
        bases, st = opsem.sig2_bases(ALLW, seed, quick=quick)
        self.stats["sig2"] = st
        q2 = [list(q) for q in scopes.Q2]
        qs2 = [list(q) for q in qsem2()]
        for n, (conds, cls, scope) in enumerate(bases):
            via = "parse" if (n + seed) % 4 == 0 else "api"
            qspec = ("list", q2 if (scope == "B1" and (cls != "strong" or not quick)) else qs2)
            out.append(opsem.make_task(scopes.SIG2, conds, True, self.cfgs, qspec, via=via, wsig=WSIG2, cls=cls, scope=scope,
                                       keys=alt_keys(n, len(conds)) if via == "api" else None))
        reps2, _st = scopes.structural_scope(scopes.L3, scopes.SIG3, 2, ALLW, seed, 1, minsize=2)
        for pair, _cls in reps2:
            for conds in ([pair[0], pair[0], pair[1]], [pair[0], pair[1], pair[1]]):
                cls = ref.classify([forms.sem(x, scopes.SIG3) for x in conds], forms.allmask(scopes.SIG3))
                if cls in ALLW:
                    out.append(opsem.make_task(scopes.SIG3, conds, True, self.cfgs, ("type", "T21", 0, True), via="api", cls=cls, scope="B3dup"))
        plan = [("L3", 4, WEAK, ("T21", 0), 1), ("L3", 3, ("strong",), (1, 1), 1)] if quick else \
               [("L3", 4, WEAK, (2, 2), 2), ("L3T", 4, WEAK, ("T21", 0), 1), ("L3PLUS", 3, WEAK, ("T21", 0), 1),
                ("L3", 4, ("strong",), (1, 1), 1)]
        for alpha_name, size, want, tq, per_class in plan:
            reps, st = scopes.structural_scope(getattr(scopes, alpha_name), scopes.SIG3, size, want, seed, per_class)
            self.stats["B3(%d)-%s-%s" % (size, alpha_name, "+".join(want))] = st
            for i, (conds, cls) in enumerate(reps):
                via = "parse" if (i + seed) % 4 == 1 else "api"
                nq = nq_type(conds, scopes.SIG3, tq)
                nch = max(1, -(-nq // 150))
                for ch in range(nch):
                    out.append(opsem.make_task(scopes.SIG3, conds, True, self.cfgs, ("type", tq[0], tq[1], True), via=via,
                                               cls=cls, scope="B3(%d)-%s" % (size, alpha_name), qslice=(ch, nch),
                                               keys=alt_keys(i, len(conds)) if via == "api" else None))
        return out

    def run(self, task):
        return opsem.compare_with_reference(self.id, task)

    def coverage_extra(self, agg):
        c = agg.counters
        return {"scope_stats": self.stats, "configs": list(self.cfgs),
                "classes_nonempty": {k: c.get("bases_cls_" + k, 0) for k in ALLW}}

    def replay(self, rec):
        return opsem.replay(rec)


CHECK = C07()
