#!/bin/bash
# tools/seeded_all.sh [id-prefix] : regression over all seeded property-breaking changes: each one must make every check listed
# under detection.caught_by in its meta.json exit 1 with a VIOLATION line (quick tier). Prints one line per (change, check).
cd "$(dirname "$0")/.." || exit 2
fail=0
for d in seeded/${1:-C}*/; do
  id=$(basename "$d")
  checks=$(python3 -c "import json,sys; print(' '.join(json.load(open('$d/meta.json'))['detection']['caught_by']))")
  while read -r line; do
    case "$line" in
      C*rc=1*) echo "$id $line" | cut -c1-120;;
      C*rc=*) echo "$id NOT-CAUGHT $line" | cut -c1-160; fail=1;;
    esac
  done < <(tools/seeded_eval.sh "$d/patch.diff" $checks 2>&1)
done
exit $fail
