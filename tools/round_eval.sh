#!/bin/bash
# tools/round_eval.sh <round-dir> <prop> <k> [extra check ids...] : confirm one sub-agent change (<round-dir>/<prop>/out/<k>) and run
# the property's own quick check (plus extra ones) against it; everything goes to <round-dir>/results/<prop>-<k>.txt
R="$1"; P="$2"; K="$3"; shift 3
D="$R/$P/out/$K"
mkdir -p "$R/results"
O="$R/results/$P-$K.txt"
{
  echo "== confirm"
  "$(dirname "$0")/seeded_confirm.sh" "$D/patch.diff" "$D/demo.py"
  echo "== eval"
  "$(dirname "$0")/seeded_eval.sh" "$D/patch.diff" "$P" "$@"
} > "$O" 2>&1
echo "done $P-$K: $(grep -E '^RESULT' "$O") | $(grep -E '^C[0-9]+ rc=' "$O" | cut -c1-40 | tr '\n' ';')"
