"""C12 answers depend only on meaning, not on presentation of the input (metamorphic, over a finite transformation menu)."""
import itertools

from .. import corpus, drive, forms, opsem, ref, scopes
from ..forms import BOT, TOP, A, N, O, V
from ..runner import Check, Result

STRICT = ("p", "z", "w-rc2", "w-z3", "lex-rc2", "lex-z3", "c")
EXT = ("p", "z", "w-rc2", "w-z3", "lex-rc2", "lex-z3")


# ---------------------------------------------------------------------------------------------------------
# rewrites of single formulas / conditionals (all meaning preserving)
# ---------------------------------------------------------------------------------------------------------
def rw_formula(f, kind):
    t = f[0]
    if kind == "dneg":
        return N(N(f))
    if kind == "andtop":
        return A(f, TOP)
    if kind == "orbot":
        return O(BOT, f)
    if kind == "commute":
        if t in ("and", "or"):
            return (t, rw_formula(f[2], kind), rw_formula(f[1], kind))
        if t == "not":
            return N(rw_formula(f[1], kind))
        return f
    if kind == "demorgan":
        if t == "and":
            return N(O(N(rw_formula(f[1], kind)), N(rw_formula(f[2], kind))))
        if t == "or":
            return N(A(N(rw_formula(f[1], kind)), N(rw_formula(f[2], kind))))
        if t == "not":
            return N(rw_formula(f[1], kind))
        return f
    raise ValueError(kind)


def rw_cond(cnd, kind):
    B, A_ = cnd
    if kind == "cons_and_ante":
        return (A(A_, B), A_)
    if kind == "cons_or_notante":
        return (O(B, N(A_)), A_)
    return (rw_formula(B, kind), rw_formula(A_, kind))


REWRITES = ["dneg", "demorgan", "commute", "andtop", "orbot", "cons_and_ante", "cons_or_notante"]


def transforms_for(n, sig, quick):
    """The finite menu. A transformation is a tuple interpreted by apply_transform."""
    T = [("keys", "zero"), ("keys", "rev"), ("keys", "sparse"), ("keys", "sparse0"), ("keys", "shift"), ("keys", "gap")]
    if n <= 3:
        T += [("keys", "perm", p) for p in itertools.permutations(range(1, n + 1)) if list(p) != list(range(1, n + 1))]
        T += [("order", p) for p in itertools.permutations(range(n)) if list(p) != list(range(n))]
    else:
        T += [("order", tuple(reversed(range(n))))]
    perms = [p for p in itertools.permutations(sig) if list(p) != list(sig)]
    T += [("rename", tuple(zip(sig, p))) for p in (perms if not quick else perms[:2])]
    T += [("rename", tuple(zip(sig, ["x1", "Top1", "a_b", "Bottom_", "y-2"][:len(sig)])))]
    T += [("sig", "reverse"), ("sig", "extend")]
    T += [("rewrite-base", k) for k in (REWRITES if not quick else REWRITES[:3] + REWRITES[5:])]
    T += [("rewrite-query", k) for k in (REWRITES if not quick else [REWRITES[0], REWRITES[1], REWRITES[3], REWRITES[5], REWRITES[6]])]
    # rewrite ONE conditional only (so that two copies of the same conditional stop being syntactically identical)
    T += [("rewrite-first", k) for k in ("dneg", "cons_and_ante", "andtop")]
    return T


def apply_transform(t, sig, kconds, queries):
    """kconds: ordered list of (key, cond); returns (sig, kconds, queries)."""
    kind = t[0]
    n = len(kconds)
    if kind == "keys":
        if t[1] == "zero":
            ks = list(range(n))
        elif t[1] == "rev":
            ks = list(range(n, 0, -1))
        elif t[1] == "sparse":
            ks = [10 * (i + 1) for i in range(n)]
        elif t[1] == "sparse0":
            ks = [7 * i for i in range(n)]
        elif t[1] == "shift":          # 2..n+1: contains len+1
            ks = [i + 2 for i in range(n)]
        elif t[1] == "gap":            # 1,3,5,..: contains len+1 for n = 2
            ks = [2 * i + 1 for i in range(n)]
        else:
            ks = list(t[2])
        return sig, [(k, c) for k, (_old, c) in zip(ks, kconds)], queries
    if kind == "order":
        return sig, [kconds[i] for i in t[1]], queries
    if kind == "rename":
        mp = dict(t[1])
        rc = lambda c: (forms.rename(c[0], mp), forms.rename(c[1], mp))   # noqa: E731
        return [mp.get(x, x) for x in sig], [(k, rc(c)) for k, c in kconds], [rc(q) for q in queries]
    if kind == "sig":
        if t[1] == "reverse":
            return list(reversed(sig)), kconds, queries
        return ["u0"] + list(sig) + ["u1", "u2"], kconds, queries
    if kind == "rewrite-base":
        return sig, [(k, rw_cond(c, t[1])) for k, c in kconds], queries
    if kind == "rewrite-first":
        return sig, [(k, rw_cond(c, t[1]) if j == 0 else c) for j, (k, c) in enumerate(kconds)], queries
    if kind == "rewrite-query":
        return sig, kconds, [rw_cond(q, t[1]) for q in queries]
    if kind == "pair":
        s, kc, q = apply_transform(t[1], sig, kconds, queries)
        return apply_transform(t[2], s, kc, q)
    raise ValueError(t)


def answers(sig, kconds, queries, cfgs, weakly):
    from inference.belief_base import BeliefBase

    out = {}
    qconds = [drive.mkcond(q) for q in queries]
    for cfg in cfgs:
        system, pm = drive.CONFIGS[cfg]
        bb = BeliefBase(list(sig), {k: drive.mkcond(c) for k, c in kconds}, "kb")
        out[cfg] = drive.ask(bb, system, pm, weakly, qconds)
    return out


class C12(Check):
    id = "C12"
    level = "exploration"
    rule = ("E-in, metamorphic. Bases: structure representatives of the pairs over {a,b} and of <=3-subsets of literal "
            "conditionals over {a,b,c} (strongly and weakly consistent), each with a fixed query list (semantic-class / "
            "literal + type-level queries). For every base EVERY transformation of a finite menu is applied: key maps "
            "{0..n-1, n..1, 10,20,.., 0,7,14,.., 2..n+1, 1,3,5,.., all permutations of 1..n}, all dict orders, atom permutations and fresh "
            "names, signature reversed / extended by unused atoms, and seven equivalence-preserving rewrites of every "
            "antecedent/consequent of the base or of the query (double negation, De Morgan, commutation, ,Top, Bottom;, "
            "B->A,B, B->B;!A), plus a fixed list of pairs of transformations; x all operator/back-end combinations x both "
            "modes. Oracle: the answer vector equals that of the canonical presentation (keys 1..n, file order). "
            "distinct_nontrivial = distinct (base, transformation, config) whose canonical answer vector contains both "
            "True and False.")
    assumptions = ["compares the implementation with itself (correctness of the canonical answers is C01-C07)",
                   "non-negative keys only"]

    def tasks(self):
        quick = self.tier == "quick"
        seed = self.seed
        out = []
        reps2, _ = scopes.structural_scope(scopes.C2_sub(), scopes.SIG2, 2, ("strong", "weak-finite", "weak-nofinite"), seed, 1, minsize=2)
        reps3, _ = scopes.structural_scope(scopes.L3, scopes.SIG3, 3, ("strong", "weak-finite", "weak-nofinite"), seed, 1)
        if quick:
            reps2 = reps2[seed % 5::5]
            reps3 = [r for r in reps3 if len(r[0]) >= 2][seed % 4::4]
        reps2d, _ = scopes.structural_scope(scopes.L3, scopes.SIG3, 2, ("strong",), seed, 1, minsize=2)
        dups = [[p_[0], p_[0], p_[1]] for p_, _c in reps2d]      # the same conditional twice
        if quick:
            dups = dups[seed % 2::2]
        q2 = scopes.semclass_reps(scopes.C2, scopes.SIG2)[3::7]
        q3 = scopes.literal_queries3()[::8]
        self.nb = len(reps2) + len(reps3)
        for conds, cls in reps2:
            T = transforms_for(len(conds), scopes.SIG2, quick)
            for i in range(0, len(T), 6):
                out.append((scopes.SIG2, conds, cls, q2, T[i:i + 6]))
        for conds in dups:
            # count-sensitive: all type-level queries, transformations that make the two copies differ / reorder / re-key them
            sems = [forms.sem(x, scopes.SIG3) for x in conds]
            tq = [scopes.render_query(scopes.SIG3, vf) for vf in scopes.type_queries(sems, 8, 2, 1)]
            T = [("rewrite-first", k) for k in ("dneg", "cons_and_ante", "andtop")] + [("order", (2, 1, 0)), ("keys", "shift")]
            out.append((scopes.SIG3, conds, "strong", tq, T[:3], "counting"))
            out.append((scopes.SIG3, conds, "strong", tq, T[3:], "counting"))
        for conds, cls in reps3:
            T = transforms_for(len(conds), scopes.SIG3, quick)
            pairs = [("pair", T[0], ("rewrite-base", "demorgan")), ("pair", ("keys", "sparse0"), ("sig", "extend")),
                     ("pair", ("rewrite-query", "dneg"), ("keys", "rev")), ("pair", T[-1], T[1])]
            T = T + pairs
            sems = [forms.sem(x, scopes.SIG3) for x in conds]
            tq = [scopes.render_query(scopes.SIG3, vf) for vf in scopes.type_queries(sems, 8, 1, 1)][1::12]
            for i in range(0, len(T), 6):
                out.append((scopes.SIG3, conds, cls, q3 + tq, T[i:i + 6]))
        out.sort(key=lambda t: -len(t[3]) * len(t[4]))     # big tasks first
        return out

    def run(self, task):
        res = Result()
        sig, conds, cls, queries, T = task[:5]
        counting = len(task) > 5      # duplicated-conditional bases: the operators that count / compare falsified sets, strict mode
        kconds = list(zip(range(1, len(conds) + 1), conds))
        dig = []
        for weakly in ((False,) if counting else (False, True) if cls == "strong" else (True,)):
            cfgs = ("w-rc2", "w-z3", "lex-rc2", "lex-z3", "c") if counting else (EXT if weakly else STRICT)
            canon = answers(sig, kconds, queries, cfgs, weakly)
            for t in T:
                s2, kc2, q2 = apply_transform(t, sig, kconds, queries)
                got = answers(s2, kc2, q2, cfgs, weakly)
                for cfg in cfgs:
                    res.evals += len(queries)
                    dig.append(repr(got[cfg]))
                    res.outcomes.add(repr(got[cfg])[:30])
                    if got[cfg] != canon[cfg]:
                        i = next(j for j, (x, y) in enumerate(zip(got[cfg], canon[cfg])) if x != y)
                        res.violation(self.id, "presentation", {
                            "sig": sig, "conds": [forms.ctxt(x) for x in conds], "conds_f": conds, "weakly": weakly, "config": cfg,
                            "transformation": t, "tname": "%s:%s" % (t[0], t[1] if isinstance(t[1], str) else "*"),
                            "keys": [k for k, _ in kc2], "query": forms.ctxt(queries[i]), "queries_f": queries, "qi": i},
                            canon[cfg][i], got[cfg][i])
                    elif True in canon[cfg] and False in canon[cfg]:
                        res.nontrivial.add(hash((tuple(conds), repr(t), cfg, weakly)))
                res.counters["transformations_applied"] += 1
        res.digest = dig
        res.samples.append({"base": [forms.ctxt(x) for x in conds], "transformations": [repr(t)[:60] for t in T[:3]],
                            "queries": len(queries)})
        return res

    def coverage_extra(self, agg):
        return {"bases": self.nb, "menu_size_n2_sig2": len(transforms_for(2, scopes.SIG2, self.tier == "quick")),
                "menu_size_n3_sig3": len(transforms_for(3, scopes.SIG3, self.tier == "quick")) + 4}

    def replay(self, rec):
        c = rec["case"]
        conds = [opsem.tup(x) for x in c["conds_f"]]
        queries = [opsem.tup(q) for q in c["queries_f"]]
        t = opsem.tup(c["transformation"])
        kconds = list(zip(range(1, len(conds) + 1), conds))
        canon = answers(c["sig"], kconds, queries, [c["config"]], c["weakly"])[c["config"]]
        s2, kc2, q2 = apply_transform(t, c["sig"], kconds, queries)
        got = answers(s2, kc2, q2, [c["config"]], c["weakly"])[c["config"]]
        return {"observed": got, "expected": canon, "violates": got != canon}


CHECK = C12()
