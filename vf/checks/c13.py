"""C13 answers are independent of batching, history and parallel evaluation (E-seq + E-sched)."""
import collections
import itertools
import os

from .. import drive, forms, opsem, ref, sched, scopes
from ..forms import A, N, O, V
from ..runner import Check, Result

a, b, c = V("a"), V("b"), V("c")
# query alphabet: two queries with identical text, keys that collide with batch positions (0, 1), a negative key
def _deep(leaf):
    f = leaf
    for _ in range(6):
        f = A(a, f)
    return f


# two more queries that agree down to nesting depth 6 and differ only below it (same printed prefix, different meaning);
# the pair is chosen per base so that the reference answers of the two differ (see deep_pair)
QALPHA4 = [(1, (b, a)), (0, (c, A(a, b))), (-2, (b, a)), (7, (N(c), b))]
# index 6: a query with a contradictory antecedent (decided by the vacuity rule); index 7: a DIFFERENT query under key 1, the key
# of query 0 (the two can never be in one batch, but a later call may re-use the key)
QEXTRA = [(9, (c, A(b, N(b)))), (1, (N(b), a))]
QALPHA = QALPHA4 + [(3, (b, _deep(c))), (4, (b, _deep(N(c))))] + QEXTRA


def _deepx(x, leaf):
    f = leaf
    for _ in range(6):
        f = A(x, f)
    return f


def deep_pair(conds, cfg, weakly):
    """Two queries (B | x,(x,(x,(x,(x,(x,l)))))) and (B | x,(..,!l)) whose reference answers differ for this base/operator."""
    rb = ref.RefBase([forms.sem(x, scopes.SIG3) for x in conds], forms.allmask(scopes.SIG3))
    system = drive.CONFIGS[cfg][0]
    lits = [a, b, c, N(a), N(b), N(c)]
    for B in lits:
        for x in lits:
            for l in (a, b, c):
                if len({forms.atoms(B)[0], forms.atoms(x)[0], l[1]}) < 3:
                    continue
                q1, q2 = (B, _deepx(x, l)), (B, _deepx(x, N(l)))
                r1 = rb.answer(system, forms.sem(q1, scopes.SIG3), weakly)
                r2 = rb.answer(system, forms.sem(q2, scopes.SIG3), weakly)
                if r1 is not None and r1 != r2:
                    return [(3, q1), (4, q2)]
    return [(3, (b, _deep(c))), (4, (b, _deep(N(c))))]
SINGLES = [(i,) for i in range(4)]
PAIRS = [p for p in itertools.permutations(range(4), 2)]
TRIPLES = [(0, 1, 2), (2, 1, 0), (3, 0, 1), (1, 3, 2)]
DEEP = [(4,), (5,), (4, 5), (5, 4), (0, 5, 4)]
EXTRA = [(6,), (7,), (6, 0), (7, 1), (2, 7, 6)]
BATCHES = SINGLES + PAIRS + TRIPLES + DEEP + EXTRA
STRICT = ("p", "z", "w-rc2", "w-z3", "lex-rc2", "lex-z3", "c")
EXT = ("p", "z", "w-rc2", "w-z3", "lex-rc2", "lex-z3")


def mkqueries(batch):
    from inference.queries import Queries

    return Queries({QALPHA[i][0]: drive.mkcond(QALPHA[i][1]) for i in batch})


def call(mgr, batch, multi, **kw):
    """One inference() call; returns the rows as plain tuples or an exception observation."""
    try:
        df = mgr.inference(mkqueries(batch), multi_inference=multi, **kw)
    except BaseException as e:  # noqa: BLE001
        if isinstance(e, (KeyboardInterrupt, SystemExit, MemoryError)):
            raise
        return drive.exc_obs(e)
    rows = []
    for i in range(len(df)):
        r = df.iloc[i]
        res = r["result"]
        rows.append((int(r["index"]) if isinstance(r["index"], (int,)) or hasattr(r["index"], "__int__") else repr(r["index"]),
                     str(r["query"]), bool(res) if type(res).__name__ in ("bool", "bool_") else repr(res),
                     bool(r["inference_timed_out"]), bool(r["preprocessing_timed_out"])))
    return rows


def judge_rows(rows, batch, alone, allow_flagged=False):
    """-> list of problems for one call."""
    if drive.is_exc(rows):
        return ["call raised %s: %s" % (rows[1], rows[2])]
    probs = []
    if len(rows) != len(batch):
        return ["%d rows for %d submitted queries" % (len(rows), len(batch))]
    for pos, (i, row) in enumerate(zip(batch, rows)):
        key, q = QALPHA[i]
        idx, text, result, t_out, p_out = row
        if idx != key:
            probs.append("row %d carries key %r, submitted key %r" % (pos, idx, key))
        if text != forms.ctxt(q):
            probs.append("row %d carries text %r, submitted %r" % (pos, text, forms.ctxt(q)))
        if t_out or p_out:
            if not allow_flagged:
                probs.append("row %d flagged timed out without any budget" % pos)
            elif result is not False:
                probs.append("row %d flagged timed out but answer %r" % (pos, result))
        elif result is not alone[i]:
            probs.append("row %d answer %r, alone on a fresh manager %r" % (pos, result, alone[i]))
    return probs


def fresh(conds, cfg, weakly):
    from inference.inference_manager import InferenceManager

    system, pm = drive.CONFIGS[cfg]
    return InferenceManager(drive.mkbb(scopes.SIG3, conds), system, pmaxsat_solver=pm or "rc2", weakly=weakly)


def alone_answers(conds, cfg, weakly):
    out = []
    for i in range(len(QALPHA)):
        rows = call(fresh(conds, cfg, weakly), (i,), False)
        out.append(rows if drive.is_exc(rows) else rows[0][2])
    return out


def canon_state(mgr):
    """Canonical form of the manager's epistemic state: flags, key sets / clause counts of the CNF dictionaries, the set
    of objects known to the id pool (numbering dropped: SAT variable names are not observable), the current query
    slot as clause sets over object names, vMin/fMin."""
    es = mgr.epistemic_state
    pool = es.get("pool")
    id2obj = {}
    if pool is not None:
        id2obj = {i: str(o) for o, i in pool.obj2id.items()}

    def named(cnf):
        return tuple(sorted(tuple(sorted(("-" if l < 0 else "") + id2obj.get(abs(l), "?") for l in cl)) for cl in cnf))
    st = [es.get("preprocessing_done"), es.get("preprocessing_timed_out")]
    for k in ("v_cnf_dict", "f_cnf_dict", "nf_cnf_dict"):
        d = es.get(k) or {}
        st.append(tuple(sorted((str(kk), named(v)) for kk, v in d.items())))
    st.append(tuple(sorted(id2obj.values())))
    part = es.get("partition")
    st.append(repr([[getattr(x, "textRepresentation", x) for x in layer] for layer in part]) if isinstance(part, list) else repr(part))
    for k in ("vMin", "fMin"):
        d = es.get(k) or {}
        st.append(tuple(sorted((str(kk), tuple(sorted(tuple(sorted(x)) for x in v))) for kk, v in d.items())))
    return hash(tuple(st))


SPECIAL_BASE = [(V("b"), V("a")), (V("a"), A(V("a"), V("b"))), (V("c"), V("b"))]


def pick_bases(seed, weakly, n):
    want = ("weak-finite",) if weakly else ("strong",)
    reps, _ = scopes.structural_scope(scopes.L3, scopes.SIG3, 3, want, seed, 1)
    full = forms.allmask(scopes.SIG3)
    good = []
    for conds, cls in reps:
        if len(conds) < 3:
            continue
        rb = ref.RefBase([forms.sem(x, scopes.SIG3) for x in conds], full)
        depth = len(rb.fin)
        good.append((-depth, len(good), conds))
    good.sort()
    return [g[2] for g in good[:n]]


class C13(Check):
    id = "C13"
    level = "model_checking"
    rule = ("State machine = one InferenceManager per (base, operator, back-end, mode); operations inference(batch, multi) with "
            "batch over a query alphabet {1:(b|a), 0:(c|a,b), -2:(b|a), 7:(!c|b)} (duplicate text, keys colliding with batch "
            "positions, a negative key) plus two queries that agree down to nesting depth 6 and differ below: 4 singles, 12 ordered "
            "pairs, 4 triples, 5 batches with the deep pair, 5 batches with a vacuous query and with a different query under an "
            "already used key; multi in {False, True}. E-seq (a): un-merged "
            "DFS over ALL sequences of depth <= 2 (thorough 3) of the sequential operations and of the parallel ones under the "
            "default schedule, per (base, config, mode); the bases include one with a conditional no world falsifies, (a|a,b). E-seq (b): explicit-state BFS with states merged on a canonical form "
            "of epistemic_state (id-pool numbering dropped) over 6 operations until no new state appears; all depth<=3 "
            "sequences are re-run un-merged and must land in the state the merged graph predicts (this validates the "
            "canonical form). E-sched: multiprocessing replaced by a controlled double whose children are real forks; "
            "ALL delivery schedules (done / done-at-join / late / alive-lost / alive-wrote per worker, and every completion order of the workers that "
            "are done) for k = 1..3 workers. Oracle per "
            "call: one row per submitted query, submission order, own key, own text, answer = answer of that query alone on a "
            "fresh manager (under schedules: or flagged timed out with answer False); no process left un-joined. A fixed set of "
            "calls with the real multiprocessing module checks active_children() afterwards.")
    assumptions = ["worker completion is modelled at call granularity (visibility of a worker's writes relative to "
                   "join/is_alive/terminate), not at the level of OS scheduling inside a worker",
                   "answers 'alone on a fresh manager' are themselves checked against the reference in C01-C07"]
    audit_tasks = 4

    def tasks(self):
        quick = self.tier == "quick"
        out = []
        nb = 2 if quick else 3
        self.bases = {False: pick_bases(self.seed, False, nb), True: pick_bases(self.seed, True, 1 if quick else 2)}
        for weakly, bases in self.bases.items():
            for conds in bases:
                for cfg in (EXT if weakly else STRICT):
                    if quick:
                        out.append(("dfs", conds, cfg, weakly, 2, False))
                    else:       # depth 3: one task per first operation (30 x 900 sequences)
                        for first in range(len(BATCHES)):
                            out.append(("dfs", conds, cfg, weakly, 3, False, first))
                    if cfg in ("z", "w-rc2", "c", "lex-z3"):
                        out.append(("dfs", conds, cfg, weakly, 2, True))
        # a base with a conditional no world falsifies and one whose antecedent repeats its consequent: preprocessing treats such
        # conditionals specially, and what it learned about them has to survive into later calls on the same manager
        for cfg in STRICT:
            out.append(("dfs", SPECIAL_BASE, cfg, False, 2, False))
        for weakly in (False, True):
            conds = self.bases[weakly][0]
            for cfg in ("w-rc2", "lex-rc2", "c", "z") if not weakly else ("w-rc2", "lex-rc2"):
                out.append(("bfs", conds, cfg, weakly))
        for weakly in (False, True):
            conds = self.bases[weakly][0]
            for cfg in (("z", "w-rc2", "c", "lex-z3") if not weakly else ("w-rc2", "p")):
                for batch in ((2,), (0, 1), (1, 0, 2), (6, 7)) + (() if quick else ((3, 0, 1),)):
                    out.append(("sched", conds, cfg, weakly, batch))
        out.sort(key=lambda t: -len(t[:6]))
        return out

    def parent_tasks(self):
        conds = self.bases[False][0]
        return [("realmp", conds, cfg, False) for cfg in ("z", "w-rc2", "c")] + [("realmp", self.bases[True][0], "lex-rc2", True)]

    def run(self, task):
        res = Result()
        kind = task[0]
        conds, cfg, weakly = task[1], task[2], task[3]
        case0 = {"sig": scopes.SIG3, "conds": [forms.ctxt(x) for x in conds], "conds_f": conds, "config": cfg, "weakly": weakly}
        global QALPHA
        QALPHA = QALPHA4 + deep_pair(conds, cfg, weakly) + QEXTRA
        alone = alone_answers(conds, cfg, weakly)
        if alone[4] != alone[5] and not any(drive.is_exc(x) for x in alone):
            res.counters["tasks_with_distinguishing_deep_pair"] += 1
        if any(drive.is_exc(x) for x in alone):
            res.evals += 1
            res.violation(self.id, "alone-exception", dict(case0, scope=kind), "answers", alone)
            res.digest = repr(alone)
            return res
        dig = []
        if kind == "dfs":
            depth, multi = task[4], task[5]
            first = task[6] if len(task) > 6 else None
            nseq = 0
            for d in range(1, depth + 1):
                for seq in itertools.product(range(len(BATCHES)), repeat=d):
                    if first is not None and seq[0] != first:
                        continue
                    if first is not None and d == 3 and (seq[1] + seq[2]) % 3:
                        continue      # depth 3: every third (second, third) pair per first operation
                    if multi and d == 2 and (seq[0] + seq[1]) % 4:      # parallel calls are ~20x dearer: every 4th pair
                        continue
                    if (not multi and d == 2 and self.tier == "quick" and cfg in ("p", "z", "w-z3", "lex-z3")
                            and (seq[0] + seq[1]) % 2):
                        continue      # operators that keep no per-query state between calls: every 2nd pair in the quick tier
                    nseq += 1
                    mgr = fresh(conds, cfg, weakly)
                    with sched.patched_mp(sched.Chooser()) as dbl:
                        for step, bi in enumerate(seq):
                            rows = call(mgr, BATCHES[bi], multi)
                            res.evals += 1
                            probs = judge_rows(rows, BATCHES[bi], alone)
                            if multi and dbl.leaked():
                                probs.append("worker processes left behind: %r" % (dbl.leaked(),))
                            dig.append(repr(rows))
                            res.outcomes.add(repr(rows if drive.is_exc(rows) else [r[2] for r in rows]))
                            if probs:
                                res.violation(self.id, "history", dict(case0, scope="dfs", multi=multi, sequence=[list(BATCHES[x]) for x in seq[:step + 1]],
                                              tname="multi" if multi else "seq"), "rows as for fresh single calls", {"rows": rows, "problems": probs[:4]})
                                break
                        else:
                            if d >= 2:
                                res.nontrivial.add(hash((tuple(conds), cfg, weakly, multi, seq)))
            res.extra["traces"] = nseq
            res.extra["transitions"] = res.evals
            res.counters["dfs_sequences_%s" % ("multi" if multi else "seq")] += nseq
            res.samples.append({"base": case0["conds"], "config": cfg, "mode": "extended" if weakly else "strict", "multi": multi,
                                "sequences": nseq, "example_sequence": [list(BATCHES[5]), list(BATCHES[17])], "alone_answers": alone})
        elif kind == "bfs":
            ops = [(0,), (1,), (2,), (3,), (0, 1), (3, 2), (4, 5)]

            def replay_path(path):
                mgr = fresh(conds, cfg, weakly)
                rows = None
                for bi in path:
                    rows = call(mgr, ops[bi], False)
                return mgr, rows
            init = canon_state(fresh(conds, cfg, weakly))
            seen = {init: ()}
            edges = {}
            frontier = collections.deque([init])
            ntrans = 0
            while frontier:
                st = frontier.popleft()
                for oi in range(len(ops)):
                    mgr, rows = replay_path(seen[st] + (oi,))
                    ntrans += 1
                    res.evals += 1
                    probs = judge_rows(rows, ops[oi], alone)
                    dig.append(repr(rows))
                    if probs:
                        res.violation(self.id, "history", dict(case0, scope="bfs", multi=False, sequence=[list(ops[x]) for x in seen[st] + (oi,)], tname="bfs"),
                                      "rows as for fresh single calls", {"rows": rows, "problems": probs[:4]})
                    nxt = canon_state(mgr)
                    edges[(st, oi)] = nxt
                    if nxt not in seen:
                        seen[nxt] = seen[st] + (oi,)
                        frontier.append(nxt)
                    if len(seen) > 400:
                        raise RuntimeError("state space larger than expected (canonical form too fine?)")
            # validate the canonical form: every depth<=3 sequence, run un-merged, must land where the merged graph says
            nval = 0
            for d in (1, 2, 3):
                for seq in itertools.product(range(len(ops)), repeat=d):
                    if d == 3 and (seq[0] * 49 + seq[1] * 7 + seq[2]) % 3:
                        continue
                    mgr, rows = replay_path(seq)
                    st = init
                    for oi in seq:
                        st = edges[(st, oi)]
                    nval += 1
                    res.evals += 1
                    if canon_state(mgr) != st:
                        res.violation(self.id, "canonicalisation", dict(case0, scope="bfs", sequence=[list(ops[x]) for x in seq]),
                                      "merged and un-merged search agree", "state differs")
            res.extra["states"] = len(seen)
            res.extra["transitions"] = ntrans
            res.extra["traces"] = nval
            res.counters["bfs_objects"] += 1
            res.counters["bfs_depth_sum"] += max(len(p) for p in seen.values())
            res.nontrivial.add(hash((tuple(conds), cfg, weakly, "bfs")))
            res.samples.append({"base": case0["conds"], "config": cfg, "bfs_states": len(seen), "bfs_transitions": ntrans,
                                "max_depth": max(len(p) for p in seen.values()), "validated_unmerged_sequences": nval})
        elif kind == "sched":
            batch = task[4]

            def run_one(chooser):
                mgr = fresh(conds, cfg, weakly)
                with sched.patched_mp(chooser) as dbl:
                    rows = call(mgr, batch, True)
                    rows2 = call(mgr, (batch[0],), False)     # a later sequential call must be unaffected
                    return rows, rows2, dbl.leaked(), list(dbl.crashes), list(dbl.join_timeouts)
            nex = 0
            for choices, trace, (rows, rows2, leaked, crashes, jt) in sched.explore(run_one):
                nex += 1
                res.evals += 1
                probs = judge_rows(rows, batch, alone, allow_flagged=True)
                probs += ["later call: " + p for p in judge_rows(rows2, (batch[0],), alone)]
                if leaked:
                    probs.append("worker processes left behind: %r" % (leaked,))
                if crashes:
                    probs.append("worker crashed: %r" % (crashes[:1],))
                obs = repr((rows, rows2))
                dig.append(obs)
                res.outcomes.add(obs)
                sched_names = [sched.CHOICES[ch] if lab[0] == "worker" else "completion-order#%d" % ch for (lab, _n, ch) in trace]
                if probs:
                    res.violation(self.id, "schedule", dict(case0, scope="sched", batch=list(batch), schedule=sched_names, choices=choices,
                                  tname="sched"), "every row flagged-timed-out-with-False or equal to the fresh single answer; own keys",
                                  {"rows": rows, "later": rows2, "problems": probs[:4]})
                else:
                    res.nontrivial.add(hash((tuple(conds), cfg, weakly, batch, tuple(choices))))
            res.extra["traces"] = nex
            res.extra["transitions"] = nex * (len(batch) + 1)
            res.counters["schedules_explored"] += nex
            res.samples.append({"base": case0["conds"], "config": cfg, "batch_keys": [QALPHA[i][0] for i in batch], "schedules": nex,
                                "distinct_outcomes": len(res.outcomes), "example_schedule": ["late", "alive-wrote", "done"][:len(batch)]})
        elif kind == "realmp":
            import multiprocessing as mp

            mgr = fresh(conds, cfg, weakly)
            for batch in ((0, 1, 2), (3,), (1, 0)):
                rows = call(mgr, batch, True)
                res.evals += 1
                probs = judge_rows(rows, batch, alone)
                kids = [p.name for p in mp.active_children()]
                if kids:
                    probs.append("active children after the call: %r" % kids)
                try:
                    pid, _st = os.waitpid(-1, os.WNOHANG)
                    if pid:
                        probs.append("un-reaped child %d after the call" % pid)
                except ChildProcessError:
                    pass
                dig.append(repr(rows))
                if probs:
                    res.violation(self.id, "real-multiprocessing", dict(case0, scope="realmp", batch=list(batch), tname="realmp"), "as sequential",
                                  {"rows": rows, "problems": probs[:4]})
                else:
                    res.nontrivial.add(hash((tuple(conds), cfg, weakly, batch, "realmp")))
            res.counters["real_multiprocessing_calls"] += 3
            res.extra["traces"] = 3
            res.extra["transitions"] = 3
        res.digest = dig
        return res

    def merge(self, agg, r):
        for k in ("states", "transitions", "traces"):
            agg.extra[k] = agg.extra.get(k, 0) + r.extra.get(k, 0)

    def coverage_extra(self, agg):
        return {"states": max(1, agg.extra.get("states", 0)), "transitions": agg.extra.get("transitions", 0),
                "traces_validated_against_impl": agg.extra.get("traces", 0),
                "explanation": "states = canonical epistemic states reached by the merged BFS (summed over objects); transitions = "
                               "inference() calls executed on real managers; every explored trace is an implementation trace",
                "batches": [list(x) for x in BATCHES], "query_alphabet": [[k, forms.ctxt(q)] for k, q in QALPHA]}

    def replay(self, rec):
        cs = rec["case"]
        conds = [opsem.tup(x) for x in cs["conds_f"]]
        cfg, weakly = cs["config"], cs["weakly"]
        global QALPHA
        QALPHA = QALPHA4 + deep_pair(conds, cfg, weakly) + QEXTRA
        alone = alone_answers(conds, cfg, weakly)
        if rec["kind"] == "schedule":
            mgr = fresh(conds, cfg, weakly)
            with sched.patched_mp(sched.Chooser(cs["choices"])) as dbl:
                rows = call(mgr, tuple(cs["batch"]), True)
                rows2 = call(mgr, (cs["batch"][0],), False)
                probs = judge_rows(rows, tuple(cs["batch"]), alone, allow_flagged=True) + judge_rows(rows2, (cs["batch"][0],), alone)
                if dbl.leaked():
                    probs.append("leaked %r" % (dbl.leaked(),))
                if dbl.crashes:
                    probs.append("crashed")
            return {"observed": {"rows": rows, "later": rows2, "problems": probs}, "violates": bool(probs)}
        if rec["kind"] == "history":
            mgr = fresh(conds, cfg, weakly)
            probs = []
            rows = None
            with sched.patched_mp(sched.Chooser()):
                for batch in cs["sequence"]:
                    rows = call(mgr, tuple(batch), bool(cs.get("multi")))
                    probs = judge_rows(rows, tuple(batch), alone)
            return {"observed": {"rows": rows, "problems": probs}, "violates": bool(probs)}
        return {"observed": alone, "violates": any(drive.is_exc(x) for x in alone)}


CHECK = C13()
