"""C09 every operator satisfies direct inference and the System P postulates (+ rational monotony for Z and lex)."""
import itertools
import os

from .. import corpus, drive, forms, opsem, ref, scopes
from ..runner import Check, Result

STRICT = ("p", "z", "w-rc2", "w-z3", "lex-rc2", "lex-z3", "c")
EXT = ("p", "z", "w-rc2", "w-z3", "lex-rc2", "lex-z3")
RATIONAL = ("z", "lex-rc2", "lex-z3")
FULL = 15


def table_queries():
    """(B|A) for all 16 x 16 truth functions (primary forms), indexed by (mask(A), mask(B))."""
    idx = {}
    qs = []
    for A_ in scopes.F2:
        for B in scopes.F2:
            idx[(forms.mask(A_, scopes.SIG2), forms.mask(B, scopes.SIG2))] = len(qs)
            qs.append((B, A_))
    return qs, idx


def alt_queries():
    """Secondary syntactic forms: (B|A') for 4 antecedents x 16 consequents, (B'|A) for 4 antecedents x 16 consequents."""
    out = []
    for i in (2, 7, 11, 14):
        for j in range(16):
            out.append(("lle", (scopes.F2[j], scopes.F2S[i]), (forms.mask(scopes.F2[i], scopes.SIG2), forms.mask(scopes.F2[j], scopes.SIG2))))
    for i in (3, 6, 10, 15):
        for j in range(16):
            out.append(("rw-eq", (scopes.F2S[j], scopes.F2[i]), (forms.mask(scopes.F2[i], scopes.SIG2), forms.mask(scopes.F2[j], scopes.SIG2))))
    return out


def check_postulates(res, prop, T, cfg, weakly, case):
    """T: dict (amask, bmask) -> bool. Every instance of every postulate over all formula tuples."""
    M = range(16)

    def bad(name, inst, why):
        c = dict(case)
        c["postulate"] = name
        c["instance"] = inst
        c["tname"] = name
        res.violation(prop, "postulate", c, why, {k: T[k] for k in inst if k in T})

    for a in M:
        res.evals += 1
        if not T[(a, a)]:
            bad("REF", [(a, a)], "A |~ A")
        if not weakly and a != 0 and T[(a, 0)]:
            bad("CONS", [(a, 0)], "(Bottom|A) only for unsatisfiable A")
        for b in M:
            res.evals += 1
            if a & ~b & FULL == 0 and not T[(a, b)]:
                bad("SC", [(a, b)], "A |= B implies A |~ B")
            if not T[(a, b)]:
                continue
            for c in M:
                res.evals += 4
                if b & ~c & FULL == 0 and not T[(a, c)]:
                    bad("RW", [(a, b), (a, c)], "A|~B, B|=C => A|~C")
                if T[(a, c)]:
                    if not T[(a, b & c)]:
                        bad("AND", [(a, b), (a, c), (a, b & c)], "A|~B, A|~C => A|~B&C")
                    if not T[(a & b, c)]:
                        bad("CM", [(a, b), (a, c), (a & b, c)], "A|~B, A|~C => A&B|~C")
                if T[(a & b, c)] and not T[(a, c)]:
                    bad("CUT", [(a, b), (a & b, c), (a, c)], "A|~B, A&B|~C => A|~C")
    for a in M:
        for b in M:
            for c in M:
                res.evals += 1
                if T[(a, c)] and T[(b, c)] and not T[(a | b, c)]:
                    bad("OR", [(a, c), (b, c), (a | b, c)], "A|~C, B|~C => A;B|~C")
                if cfg in RATIONAL and T[(a, c)] and not T[(a, FULL & ~b)] and not T[(a & b, c)]:
                    bad("RM", [(a, c), (a, FULL & ~b), (a & b, c)], "A|~C, not A|~!B => A&B|~C")


class C09(Check):
    id = "C09"
    level = "exploration"
    rule = ("E-in, no oracle (implications between the implementation's own answers). For every base of the scope and every "
            "operator/back-end/mode the COMPLETE inference relation over the 16 x 16 truth functions of {a,b} is computed "
            "once (256 queries, primary forms) plus 128 queries in secondary syntactic forms; then every instance of REF, "
            "SC, RW, AND, CM, CUT, OR (16^3 tuples each), LLE and right equivalence (secondary vs primary forms), "
            "(Bottom|A) only for unsatisfiable A (strict mode), and RM for System Z / lex is evaluated on the table; direct "
            "inference: every conditional of the base is asked as a query (two-atom scopes, three-atom structure "
            "representatives, shipped corpora incl. random_large 6_6..20_20). Bases: one per semantic class of the consistent "
            "one-conditional bases, structure representatives of the pairs (strict: strongly consistent, 7 configs; "
            "extended: weakly consistent, 6 configs). distinct_nontrivial = distinct (base, config) whose relation is neither "
            "empty nor full beyond the classical part.")
    assumptions = ["postulate instances range over the 16 truth functions of two atoms; direct inference reaches large bases",
                   "an exception instead of an answer is reported as a violation (the relation is undefined there)"]

    def tasks(self):
        quick = self.tier == "quick"
        seed = self.seed
        out = []
        full = forms.allmask(scopes.SIG2)
        b1 = [[x] for x in scopes.semclass_reps(scopes.C2, scopes.SIG2)]
        reps, _ = scopes.structural_scope(scopes.C2_sub(), scopes.SIG2, 2, ("strong", "weak-finite", "weak-nofinite"), seed, 1, minsize=2)
        bases = []
        for conds in b1:
            cls = ref.classify([forms.sem(x, scopes.SIG2) for x in conds], full)
            if cls in ("strong", "weak-finite", "weak-nofinite"):
                bases.append((conds, cls))
        if quick:
            bases = bases[seed % 2::2]
            reps = reps[seed % 3::3]
        bases += reps
        self.nb = len(bases)
        for conds, cls in bases:
            for cfg in (STRICT if cls == "strong" else EXT):
                out.append(("table", conds, cls, cfg, cls != "strong"))
        if not quick:
            for conds, cls in bases:
                if cls == "strong":
                    for cfg in EXT:
                        out.append(("table", conds, cls, cfg, True))
        # direct inference on 3-atom structure representatives and corpora
        reps3, _ = scopes.structural_scope(scopes.L3PLUS, scopes.SIG3, 3, ("strong", "weak-finite", "weak-nofinite"), seed, 1)
        for i in range(0, len(reps3), 6):
            out.append(("direct3", reps3[i:i + 6]))
        per = 2 if quick else 20
        for fam in corpus.SMALL_FAMILIES + ([] if quick else corpus.LARGE_FAMILIES):
            for j in range(per):
                out.append(("directfile", corpus.random_large(fam, (seed * per + j + 20) % 100)[0]))
        for bbp, _qp in corpus.named_bases():
            out.append(("directfile", bbp))
        out.sort(key=lambda t: {"directfile": 0, "table": 1, "direct3": 2}[t[0]])
        return out

    def run(self, task):
        res = Result()
        if task[0] == "table":
            _k, conds, cls, cfg, weakly = task
            system, pm = drive.CONFIGS[cfg]
            qs, idx = table_queries()
            alts = alt_queries()
            qconds = [drive.mkcond(q) for q in qs] + [drive.mkcond(q) for _n, q, _k2 in alts] + [drive.mkcond(x) for x in conds]
            ans = drive.ask(drive.mkbb(scopes.SIG2, conds), system, pm, weakly, qconds)
            case = {"sig": scopes.SIG2, "conds": [forms.ctxt(x) for x in conds], "conds_f": conds, "weakly": weakly, "config": cfg, "cls": cls}
            res.digest = repr(ans)
            excs = [i for i, x in enumerate(ans) if drive.is_exc(x)]
            if excs:
                res.evals += 1
                res.violation(self.id, "exception", dict(case, query=str(qconds[excs[0]])), "an answer", ans[excs[0]])
                return res
            T = {k: ans[i] for k, i in idx.items()}
            check_postulates(res, self.id, T, cfg, weakly, case)
            for j, (name, q, key) in enumerate(alts):
                res.evals += 1
                if ans[256 + j] != T[key]:
                    c = dict(case, postulate="LLE" if name == "lle" else "RW-equivalence", tname=name, query=forms.ctxt(q))
                    res.violation(self.id, "postulate", c, "same answer for logically equivalent formulas", {"primary": T[key], "secondary": ans[256 + j]})
            for j, x in enumerate(conds):
                res.evals += 1
                if ans[256 + len(alts) + j] is not True:
                    res.violation(self.id, "direct-inference", dict(case, query=forms.ctxt(x)), True, ans[256 + len(alts) + j])
            nontriv = sum(1 for (a_, b_), v in T.items() if v and a_ & ~b_ & FULL)
            res.counters["relations_computed"] += 1
            res.counters["nonclassical_inferences"] += nontriv
            res.outcomes.add(nontriv)
            if nontriv:
                res.nontrivial.add(hash((tuple(conds), cfg, weakly)))
            res.samples.append({"base": [forms.ctxt(x) for x in conds], "config": cfg, "mode": "extended" if weakly else "strict",
                                "inferred_pairs": sum(1 for v in T.values() if v), "nonclassical": nontriv})
            return res
        if task[0] == "direct3":
            dig = []
            for conds, cls in task[1]:
                for weakly in ((False, True) if cls == "strong" else (True,)):
                    for cfg in (EXT if weakly else STRICT):
                        system, pm = drive.CONFIGS[cfg]
                        ans = drive.ask(drive.mkbb(scopes.SIG3, conds), system, pm, weakly, [drive.mkcond(x) for x in conds])
                        dig.append(repr(ans))
                        for x, r in zip(conds, ans):
                            res.evals += 1
                            res.outcomes.add(repr(r)[:10])
                            if r is not True:
                                res.violation(self.id, "direct-inference", {"sig": scopes.SIG3, "conds": [forms.ctxt(y) for y in conds],
                                              "conds_f": conds, "weakly": weakly, "config": cfg, "cls": cls, "query": forms.ctxt(x)}, True, r)
                            else:
                                res.nontrivial.add(hash((tuple(conds), cfg, weakly, x)))
            res.digest = dig
            res.counters["direct_inference_bases_3atoms"] += len(task[1])
            return res
        bbp = task[1]
        rel = os.path.relpath(bbp, corpus.examples_dir())
        dig = []
        bb0 = corpus.load_bb(bbp)
        for weakly in (False, True):
            for cfg in (EXT if weakly else STRICT):
                if cfg == "c" and len(bb0.conditionals) > 20:
                    continue
                system, pm = drive.CONFIGS[cfg]
                bb = corpus.load_bb(bbp)
                ans = drive.ask(bb, system, pm, weakly, list(bb.conditionals.values()))
                if ans and all(drive.is_exc(x) and x[1] == "AssertionError" for x in ans):
                    res.counters["bases_refused"] += 1
                    break
                dig.append(repr(ans))
                for k, r in zip(bb.conditionals, ans):
                    res.evals += 1
                    if r is not True:
                        res.violation(self.id, "direct-inference", {"bb_file": rel, "weakly": weakly, "config": cfg, "key": k,
                                      "query": str(bb.conditionals[k])}, True, r)
                    else:
                        res.nontrivial.add(hash((rel, cfg, weakly, k)))
        res.counters["direct_inference_corpus_bases"] += 1
        res.digest = dig
        res.samples.append({"corpus_base": rel, "conditionals": len(bb0.conditionals), "atoms": len(bb0.signature)})
        return res

    def coverage_extra(self, agg):
        return {"table_bases": self.nb, "queries_per_relation": 256 + 128}

    def replay(self, rec):
        c = rec["case"]
        r = Result()
        if "bb_file" in c:
            bbp = os.path.join(corpus.examples_dir(), c["bb_file"])
            system, pm = drive.CONFIGS[c["config"]]
            bb = corpus.load_bb(bbp)
            got = drive.ask(bb, system, pm, c["weakly"], [bb.conditionals[c["key"]]])[0]
            return {"observed": got, "violates": got is not True}
        conds = [opsem.tup(x) for x in c["conds_f"]]
        if c["sig"] == scopes.SIG3:
            r2 = self.run(("direct3", [(conds, c["cls"])]))
        else:
            r2 = self.run(("table", conds, c["cls"], c["config"], c["weakly"]))
        same = [v for v in r2.violations if v["kind"] == rec["kind"] and v["case"].get("config") == c["config"]
                and v["case"].get("postulate") == c.get("postulate")]
        return {"observed": [v["observed"] for v in same[:2]], "violates": bool(same)}


CHECK = C09()
