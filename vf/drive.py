"""Driver seam: builds repository objects from tuple formulas and calls the public API named in the properties."""
import logging
import os
import warnings

warnings.filterwarnings("ignore")
logging.disable(logging.CRITICAL)
os.environ.setdefault("INFOCF_LOG_LEVEL", "CRITICAL")

from . import forms  # noqa: E402

# (system, pmaxsat_solver) — '' for operators that ignore the back-end
CONFIGS = {
    "p": ("p-entailment", ""),
    "z": ("system-z", ""),
    "w-rc2": ("system-w", "rc2"),
    "w-z3": ("system-w", "z3"),
    "lex-rc2": ("lex_inf", "rc2"),
    "lex-z3": ("lex_inf", "z3"),
    "c": ("c-inference", "rc2"),
}


def repo_root():
    import inference

    return os.path.dirname(os.path.dirname(os.path.abspath(inference.__file__)))


def mkcond(cnd, text=None, full=False):
    from inference.conditional import Conditional

    B, A_ = cnd
    return Conditional(forms.to_pysmt(B), forms.to_pysmt(A_), text if text is not None else forms.ctxt(cnd, full))


def mkbb(sig, conds, keys=None, name="kb"):
    from inference.belief_base import BeliefBase

    if keys is None:
        keys = range(1, len(conds) + 1)
    return BeliefBase(list(sig), {k: mkcond(cnd) for k, cnd in zip(keys, conds)}, name)


def bb_text(sig, conds, name="kb"):
    """A .cl file text for the base."""
    return "signature\n   %s\n\nconditionals\n%s{\n   %s\n}\n" % (
        ",".join(sig), name, ",\n   ".join(forms.ctxt(x) for x in conds))


def parse_bb(sig, conds, name="kb"):
    from parser.Wrappers import parse_belief_base

    return parse_belief_base(bb_text(sig, conds, name))


def exc_obs(e):
    return ("EXC", type(e).__name__, str(e)[:100])


def is_exc(x):
    return isinstance(x, tuple) and len(x) == 3 and x[0] == "EXC"


def ask(bb, system, pm, weakly, qconds, batch=100, keys=None, **kw):
    """Answers of InferenceManager(bb, system, pmaxsat_solver=pm, weakly=weakly).inference(...) for a list of
    query Conditional objects; one manager per batch of `batch` queries (the rc2 id pool grows with every query).
    Returns a list with, per query, a bool or ('EXC', type, msg).  If a batch raises, it is re-asked query by
    query on fresh managers to localise the exception."""
    from inference.inference_manager import InferenceManager
    from inference.queries import Queries

    out = []
    for i in range(0, len(qconds), batch):
        chunk = qconds[i:i + batch]
        ks = list(range(1, len(chunk) + 1)) if keys is None else keys[i:i + batch]
        try:
            df = InferenceManager(bb, system, pmaxsat_solver=pm or "rc2", weakly=weakly).inference(
                Queries(dict(zip(ks, chunk))), **kw)
            res = [_cell(r, t, p) for r, t, p in zip(df["result"], df["inference_timed_out"], df["preprocessing_timed_out"])]
            if len(res) != len(chunk):
                res = [("EXC", "RowCount", "%d rows for %d queries" % (len(res), len(chunk)))] * len(chunk)
            out += res
        except BaseException as e:  # noqa: BLE001 - every escape is an observation
            if isinstance(e, (KeyboardInterrupt, SystemExit, MemoryError)):
                raise
            if len(chunk) == 1:
                out.append(exc_obs(e))
            else:
                for k, q in zip(ks, chunk):
                    out += ask(bb, system, pm, weakly, [q], batch=1, keys=[k], **kw)
    return out


def _cell(r, timed_out, pre_timed_out):
    if timed_out or pre_timed_out:
        return ("EXC", "TimedOutFlag", "row flagged timed out without any budget")
    if isinstance(r, bool) or type(r).__name__ in ("bool_", "bool"):
        return bool(r)
    return ("EXC", "NonBool", repr(r)[:60])


def construct_fails(bb, system, pm, weakly, qcond):
    """For the refusal clause: returns None if the call raised (refused), else the table's result column."""
    from inference.inference_manager import InferenceManager
    from inference.queries import Queries

    try:
        df = InferenceManager(bb, system, pmaxsat_solver=pm or "rc2", weakly=weakly).inference(Queries({1: qcond}))
    except BaseException as e:  # noqa: BLE001
        if isinstance(e, (KeyboardInterrupt, SystemExit, MemoryError)):
            raise
        return None, exc_obs(e)
    return [bool(x) if isinstance(x, bool) else x for x in df["result"]], None


def accelerate():
    """Memoise pysmt.logics.get_closer_logic — a pure function of (supported logics, logic) that pysmt recomputes
    in ~2 ms of Python for every Solver()/is_sat() call and that dominates the cost of small queries.  Third-party
    code only; nothing of the repository is touched.  VERIF_NO_ACCEL=1 switches it off."""
    if os.environ.get("VERIF_NO_ACCEL"):
        return
    import pysmt.factory
    import pysmt.logics

    orig = pysmt.logics.get_closer_logic
    if getattr(orig, "_vf_memo", False):
        return
    cache = {}

    def get_closer_logic(supported_logics, logic):
        key = (tuple(supported_logics), logic)
        try:
            return cache[key]
        except KeyError:
            r = cache[key] = orig(supported_logics, logic)
            return r

    get_closer_logic._vf_memo = True
    pysmt.logics.get_closer_logic = get_closer_logic
    pysmt.factory.get_closer_logic = get_closer_logic


accelerate()


class debug_logging:
    """Run a slice of the exploration with the library's DEBUG logging switched on (the log level is a configuration knob
    that must not change any answer; several modules have `if logger.isEnabledFor(DEBUG)` blocks that touch live data)."""

    def __enter__(self):
        self.root = logging.getLogger()
        self.old = self.root.level
        self.handler = logging.NullHandler()
        self.root.addHandler(self.handler)
        self.root.setLevel(logging.DEBUG)
        logging.disable(logging.NOTSET)
        return self

    def __exit__(self, *a):
        logging.disable(logging.CRITICAL)
        self.root.setLevel(self.old)
        self.root.removeHandler(self.handler)
        return False
