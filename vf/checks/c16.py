"""C16 the System Z ranking object equals the Z-ranking and models the base (E-in + explicit-state BFS over the lazy cache)."""
import collections
import itertools

from .. import drive, forms, opsem, ref, scopes
from ..forms import BOT, TOP, A, N, O, V
from ..runner import Check, Result
from .c06 import FACTS
from .opcheck import alt_keys

a, b, c = V("a"), V("b"), V("c")
ACCEPTED = ("strong", "weak-finite", "weak-nofinite")
FACT_LISTS = [[f] for f in FACTS] + [[f, g] for f, g in itertools.combinations([a, N(a), b, O(a, b)], 2)] + [[b, a]]
BFS_FACTS = [[a], [O(a, b), N(b)]]


def ref_ranks(sig, conds, facts, extended):
    """Reference rank table {world string: rank} or None when the (augmented) base is not acceptable in the mode."""
    full = forms.allmask(sig)
    sems = [forms.sem(x, sig) for x in conds] + [forms.sem((BOT, N(f)), sig) for f in facts]
    nW = 1 << len(sig)
    if extended:
        s = ref.split_ext(sems, full)
        if s is False:
            return None
        fin, inf, feas = s
        top = len(fin) + 1
        ranks = {forms.world_str(sig, w): (ref.zrank(fin, sems, w) if feas >> w & 1 else top) for w in range(nW)}
        return ranks, sems, fin, inf, feas
    p = ref.partition(sems, full)
    if p is False:
        return None
    ranks = {forms.world_str(sig, w): ref.zrank(p, sems, w) for w in range(nW)}
    return ranks, sems, p, [], full


def effective_extended(facts, extended):
    if facts:
        return True if extended is None else extended
    return False if extended is None else extended


class InputMutated(Exception):
    pass


def build(sig, conds, facts, extended, how="node", keys=None):
    from inference.preocf import PreOCF

    bb = drive.mkbb(sig, conds, keys)
    before = list(bb.conditionals.items())
    kw = {}
    if facts:
        kw["facts"] = [forms.txt(f) if how == "str" else forms.to_pysmt(f) for f in facts]
    obj = PreOCF.init_system_z(bb, extended=extended, **kw)
    after = list(bb.conditionals.items())
    if len(after) != len(before) or any(k1 != k2 or c1 is not c2 for (k1, c1), (k2, c2) in zip(before, after)):
        raise InputMutated("constructing the ranking object changed the caller's belief base: keys %r -> %r" % (
            [k for k, _ in before], [k for k, _ in after]))
    return obj


def ops_for(sig):
    worlds = [forms.world_str(sig, w) for w in range(1 << len(sig))]
    ops = [("rank", w) for w in worlds] + [("force", w) for w in worlds] + [("all",)]
    fs = [a, A(N(a), b)] if len(sig) == 2 else [a, A(N(a), O(b, c)), N(c)]
    ops += [("frank", f) for f in fs]
    ops += [("accept", (b, a))] if len(sig) == 2 else [("accept", (c, A(a, b)))]
    return ops


def apply_op(obj, op):
    """Execute one operation on the live object; returns its observable result."""
    try:
        if op[0] == "rank":
            return obj.rank_world(op[1])
        if op[0] == "force":
            return obj.rank_world(op[1], force_calculation=True)
        if op[0] == "all":
            return tuple(sorted(obj.compute_all_ranks().items()))
        if op[0] == "frank":
            return obj.formula_rank(forms.to_pysmt(op[1]))
        if op[0] == "accept":
            return obj.conditional_acceptance(drive.mkcond(op[1]))
    except Exception as e:  # noqa: BLE001
        return drive.exc_obs(e)
    raise ValueError(op)


def ref_op(sig, ranks, op):
    if op[0] in ("rank", "force"):
        return ranks[op[1]]
    if op[0] == "all":
        return tuple(sorted(ranks.items()))
    if op[0] == "frank":
        m = forms.mask(op[1], sig)
        rs = [ranks[forms.world_str(sig, w)] for w in forms.bits(m)]
        return min(rs) if rs else None
    if op[0] == "accept":
        v, f = forms.sem(op[1], sig)
        rv = [ranks[forms.world_str(sig, w)] for w in forms.bits(v)]
        rf = [ranks[forms.world_str(sig, w)] for w in forms.bits(f)]
        if not rv:
            return False
        if not rf:
            return True
        return min(rv) < min(rf)


def canon(obj):
    return tuple(sorted(obj.ranks.items()))


def bfs(res, prop, sig, conds, facts, extended, rr, validate):
    """Explicit-state BFS over the lazy cache of ONE object kind; the invariant (every filled rank equals the
    reference; every operation returns the reference result) is evaluated on every transition."""
    ranks = rr[0]
    ops = ops_for(sig)
    obj = build(sig, conds, facts, extended)
    init = canon(obj)
    seen = {init: ()}
    frontier = collections.deque([init])
    ntrans = 0
    case = {"sig": sig, "conds": [forms.ctxt(x) for x in conds], "conds_f": conds, "facts_f": facts,
            "facts": [forms.txt(f) for f in facts], "extended": extended, "config": "bfs"}
    while frontier:
        st = frontier.popleft()
        for op in ops:
            obj.ranks = dict(st)        # restore the state (the only field the operations mutate)
            got = apply_op(obj, op)
            ntrans += 1
            exp = ref_op(sig, ranks, op)
            nxt = canon(obj)
            bad = [w for w, r in nxt if r is not None and r != ranks[w]]
            if got != exp or bad:
                cc = dict(case)
                cc["path"] = list(seen[st]) + [op]
                res.violation(prop, "lazy-cache", cc, {"result": exp}, {"result": got, "wrong_cached_worlds": bad})
                continue
            if nxt not in seen:
                seen[nxt] = seen[st] + (op,)
                frontier.append(nxt)
    res.counters["bfs_objects"] += 1
    res.extra["states"] = res.extra.get("states", 0) + len(seen)
    res.extra["transitions"] = res.extra.get("transitions", 0) + ntrans
    if validate:
        # the restore shortcut is validated against replay from a fresh object along the BFS tree path
        for st, path in seen.items():
            o2 = build(sig, conds, facts, extended)
            for op in path:
                apply_op(o2, op)
            res.extra["replayed"] = res.extra.get("replayed", 0) + 1
            if canon(o2) != st:
                cc = dict(case)
                cc["path"] = list(path)
                res.violation(prop, "restore-mismatch", cc, list(st), list(canon(o2)))
    return len(seen), ntrans


def deep_pairs(sig, sems, fin, feas):
    """At most one pair (B | x,(x,(x,(x,(x,(x,l)))))) / (B | x,(..,!l)) with feasible antecedents and different reference
    System Z answers."""
    lits = [V(x) for x in sig] + [N(V(x)) for x in sig]
    for B in lits:
        for x in lits:
            for l in [V(y) for y in sig]:
                if forms.atoms(x)[0] == l[1]:
                    continue
                ant1, ant2 = l, N(l)
                for _ in range(6):
                    ant1, ant2 = A(x, ant1), A(x, ant2)
                q1, q2 = (B, ant1), (B, ant2)
                s1, s2 = forms.sem(q1, sig), forms.sem(q2, sig)
                if not ((s1[0] | s1[1]) & feas and (s2[0] | s2[1]) & feas):
                    continue
                if ref.ref_z(fin, sems, s1, feas) != ref.ref_z(fin, sems, s2, feas):
                    return [(q1, q2)]
    return []


def final_checks(res, prop, sig, conds, facts, extended, rr, queries, how="node", with_operator=False, keys=None):
    """Construct, rank lazily in a seed-dependent order, compare everything with the reference."""
    ranks, sems, fin, inf, feas = rr
    case = {"sig": sig, "conds": [forms.ctxt(x) for x in conds], "conds_f": conds, "facts_f": facts,
            "facts": [forms.txt(f) for f in facts], "extended": extended, "config": "object", "how": how, "keys": keys}
    try:
        obj = build(sig, conds, facts, extended, how, keys)
    except Exception as e:  # noqa: BLE001
        res.evals += 1
        res.violation(prop, "construct", case, "object", drive.exc_obs(e))
        return
    worlds = list(ranks)
    k = (len(conds) + len(facts)) % len(worlds)
    order = worlds[k:] + worlds[:k]
    got = {}
    for w in order[: len(worlds) // 2]:
        got[w] = apply_op(obj, ("rank", w))
    allr = apply_op(obj, ("all",))
    res.evals += 1
    if allr != tuple(sorted(ranks.items())) or any(got[w] != ranks[w] for w in got):
        res.violation(prop, "ranks", case, ranks, {"all": allr, "lazy": got})
        return
    res.outcomes.add(tuple(sorted(set(ranks.values()))))
    nk = len(conds)
    keys = list(range(1, nk + 1))
    infkeys = set(inf)
    for i, cnd in enumerate(conds):
        if i in infkeys:
            continue
        acc = apply_op(obj, ("accept", cnd))
        res.evals += 1
        if acc is not True:
            res.violation(prop, "base-conditional-rejected", dict(case, query=forms.ctxt(cnd)), True, acc)
    # acceptance == System Z (reference) for queries whose antecedent has a feasible model
    qobs = []
    for qc in queries:
        v, f = forms.sem(qc, sig)
        if (v | f) & feas == 0:
            continue
        exp = ref.ref_z(fin, sems, (v, f), feas)
        acc = apply_op(obj, ("accept", qc))
        res.evals += 1
        qobs.append(acc)
        if acc is not exp:
            res.violation(prop, "acceptance-vs-system-z", dict(case, query=forms.ctxt(qc), query_f=qc), exp, acc)
        else:
            res.nontrivial.add(hash((tuple(conds), tuple(facts), extended, qc)))
    # two queries that agree down to nesting depth 6 and differ below, asked one after the other on the same object
    for q1, q2 in deep_pairs(sig, sems, fin, feas):
        for qc in (q1, q2):
            v, f = forms.sem(qc, sig)
            exp = ref.ref_z(fin, sems, (v, f), feas)
            acc = apply_op(obj, ("accept", qc))
            res.evals += 1
            if acc is not exp:
                res.violation(prop, "acceptance-vs-system-z", dict(case, query=forms.ctxt(qc), query_f=qc, deep=True), exp, acc)
        res.counters["deep_query_pairs"] += 1
    if with_operator and not facts:
        qs = [qc for qc in queries if (forms.sem(qc, sig)[0] | forms.sem(qc, sig)[1]) & feas]
        ans = drive.ask(drive.mkbb(sig, conds), "system-z", "", bool(extended), [drive.mkcond(q) for q in qs])
        for qc, x in zip(qs, ans):
            acc = apply_op(obj, ("accept", qc))
            res.evals += 1
            if acc is not x:
                res.violation(prop, "acceptance-vs-operator", dict(case, query=forms.ctxt(qc), query_f=qc), {"operator": x}, acc)
    fv = [w for w in range(1 << len(sig)) if any(not (forms.mask(f, sig) >> w & 1) for f in facts)]
    if facts and fv:
        res.counters["objects_with_fact_violating_worlds"] += 1
    res.counters["objects_checked"] += 1
    return obj


class C16(Check):
    id = "C16"
    level = "model_checking"
    rule = ("E-in + E-seq on the real SystemZPreOCF objects. Objects: every semantic class of one-conditional bases and one "
            "representative per conditional structure of the pairs over {a,b} that the mode accepts, x fact lists (7 single "
            "facts, 7 pairs; strings and nodes) x extended in {None, False, True}, with base keys 1..n / 2..n+1 / 0..n-1 / 1,3,5.. by residue class (the caller's base must not be changed by the construction); structure representatives of "
            "<=3-subsets of the literal conditionals over {a,b,c} in both modes. Per object: ranks in a rotated lazy order + "
            "compute_all_ranks == reference Z-ranks (top rank exactly on infeasible / fact-violating worlds), every base "
            "conditional outside the infinity layer accepted, acceptance == reference System Z (and == the system-z operator) "
            "for every query of the scope with a feasible antecedent; unacceptable combinations must raise ValueError "
            "carrying the diagnostics. E-seq: explicit-state BFS over the lazy cache (state = the ranks table; operations "
            "rank_world / forced rank_world for every world, compute_all_ranks, formula_rank, conditional_acceptance), "
            "complete for the 4-world objects (16 states) and for selected 8-world objects (256 states); the invariant is "
            "evaluated on every transition. States are restored by assigning a snapshot of the ranks table; this shortcut is "
            "validated by replaying every BFS-tree path on a fresh object for every 5th object.")
    assumptions = ["reference model vf/ref.py", "state restore by assigning the ranks table (validated on a slice, counted as "
                   "traces_validated_against_impl; every transition itself is executed on the implementation)"]

    def tasks(self):
        quick = self.tier == "quick"
        out = []
        alpha = scopes.C2_sub()
        bases = [[x] for x in scopes.semclass_reps(scopes.C2, scopes.SIG2)]
        reps, _ = scopes.structural_scope(alpha, scopes.SIG2, 2, ACCEPTED, self.seed, 1 if quick else 3, minsize=2)
        bases += [cs for cs, _ in reps]
        self.nb2 = len(bases)
        for i, conds in enumerate(bases):
            out.append(("obj2", conds, i))
        reps3, _ = scopes.structural_scope(scopes.L3, scopes.SIG3, 3 if quick else 4, ACCEPTED, self.seed, 1)
        self.nb3 = len(reps3)
        for i, (conds, cls) in enumerate(reps3):
            out.append(("obj3", conds, cls, i))
        pick = [r for r in reps3 if len(r[0]) == 3]
        nb = 2 if quick else 16
        step = max(1, len(pick) // nb)
        for conds, cls in pick[::step][:nb]:
            for ext in ((False, True) if cls == "strong" else (True,)):
                out.append(("bfs3", conds, ext))
        out.sort(key=lambda t: 0 if t[0] == "bfs3" else 1)
        return out

    def run(self, task):
        res = Result()
        try:
            return self._run(task, res)
        except InputMutated as e:
            res.evals += 1
            res.violation(self.id, "input-mutated", {"task": repr(task)[:300], "config": "object", "conds_f": task[1], "sig": scopes.SIG2 if task[0] == "obj2" else scopes.SIG3,
                          "facts_f": [], "extended": None}, "the caller's belief base is left as it was", str(e))
            res.digest = str(e)
            return res

    def _run(self, task, res):
        kind = task[0]
        if kind == "obj2":
            _k, conds, idx = task
            sig = scopes.SIG2
            queries = scopes.semclass_reps(scopes.C2, scopes.SIG2)
            for extended in (None, False, True):
                for fi, facts in enumerate([[]] + FACT_LISTS):
                    eff = effective_extended(facts, extended)
                    rr = ref_ranks(sig, conds, facts, eff)
                    how = "str" if fi % 2 else "node"
                    if rr is None:
                        if not facts:
                            continue    # base not acceptable in this mode: outside the property
                        res.evals += 1
                        try:
                            build(sig, conds, facts, extended, how)
                            got = "constructed"
                        except ValueError as e:
                            got = "ValueError" if "combination_consistent=False" in str(e) else ("ValueError-without-diagnostics", str(e)[:80])
                        except Exception as e:  # noqa: BLE001
                            got = drive.exc_obs(e)
                        res.counters["refusals_expected"] += 1
                        if got != "ValueError":
                            res.violation(self.id, "not-refused", {"sig": sig, "conds": [forms.ctxt(x) for x in conds],
                                          "conds_f": conds, "facts_f": facts, "facts": [forms.txt(f) for f in facts],
                                          "extended": extended, "config": "object", "how": how},
                                          "ValueError carrying the diagnostics", got)
                        else:
                            res.nontrivial.add(hash((tuple(conds), tuple(facts), extended)))
                        continue
                    final_checks(res, self.id, sig, conds, facts, extended, rr, queries if fi == 0 else queries[::9], how,
                                 with_operator=(fi == 0), keys=alt_keys(fi + idx, len(conds)))
                    if facts in BFS_FACTS or not facts:
                        if extended is None:
                            continue
                        bfs(res, self.id, sig, conds, facts, extended, rr, validate=(idx % 5 == 0))
            res.samples.append({"base": [forms.ctxt(x) for x in conds], "objects": res.counters["objects_checked"],
                                "bfs_states": res.extra.get("states", 0), "bfs_transitions": res.extra.get("transitions", 0)})
        elif kind == "obj3":
            _k, conds, cls, idx = task
            sig = scopes.SIG3
            sems = [forms.sem(x, sig) for x in conds]
            qs = [scopes.render_query(sig, vf) for vf in scopes.type_queries(sems, 8, 1, 1)] + scopes.literal_queries3()[::3]
            for extended in ((False, True) if cls == "strong" else (True,)):
                for facts in ([], [a], [O(a, N(c)), b]):
                    eff = effective_extended(facts, extended)
                    rr = ref_ranks(sig, conds, facts, eff)
                    if rr is None:
                        continue
                    final_checks(res, self.id, sig, conds, facts, extended if not facts else None if idx % 2 else True, rr,
                                 qs if not facts else qs[::5], with_operator=not facts)
            res.samples.append({"base": [forms.ctxt(x) for x in conds], "objects": res.counters["objects_checked"]})
        else:
            _k, conds, extended = task
            sig = scopes.SIG3
            rr = ref_ranks(sig, conds, [], extended)
            ns, nt = bfs(res, self.id, sig, conds, [], extended, rr, validate=False)
            res.counters["bfs_8world_objects"] += 1
            res.samples.append({"base": [forms.ctxt(x) for x in conds], "extended": extended, "bfs_states": ns, "bfs_transitions": nt})
        res.evals += res.extra.get("transitions", 0)
        res.digest = (res.evals, len(res.violations), sorted(res.counters.items()), res.extra.get("states"))
        return res

    def merge(self, agg, r):
        for k in ("states", "transitions", "replayed"):
            agg.extra[k] = agg.extra.get(k, 0) + r.extra.get(k, 0)

    def coverage_extra(self, agg):
        return {"states": agg.extra.get("states", 0), "transitions": agg.extra.get("transitions", 0),
                "traces_validated_against_impl": agg.extra.get("replayed", 0),
                "explanation": "states/transitions are summed over all explored objects; every transition is an execution of "
                               "the real operation on the real object; traces_validated_against_impl counts BFS-tree paths "
                               "replayed on a fresh object to validate the snapshot restore",
                "bases_2atoms": self.nb2, "bases_3atoms": self.nb3}

    def replay(self, rec):
        cs = rec["case"]
        conds = [opsem.tup(x) for x in cs["conds_f"]]
        facts = [opsem.tup(f) for f in cs["facts_f"]]
        sig = cs["sig"]
        eff = effective_extended(facts, cs["extended"])
        rr = ref_ranks(sig, conds, facts, eff)
        r = Result()
        if rec["kind"] in ("lazy-cache", "restore-mismatch"):
            obj = build(sig, conds, facts, cs["extended"])
            obs = []
            for op in cs["path"]:
                op = tuple(opsem.tup(x) if isinstance(x, list) else x for x in op)
                got = apply_op(obj, op)
                exp = ref_op(sig, rr[0], op)
                obs.append([repr(op), got, exp])
            last = obs[-1]
            bad = [w for w, x in obj.ranks.items() if x is not None and x != rr[0][w]]
            return {"observed": obs, "violates": last[1] != last[2] or bool(bad)}
        if rec["kind"] == "not-refused":
            try:
                build(sig, conds, facts, cs["extended"], cs.get("how", "node"))
                return {"observed": "constructed", "violates": True}
            except ValueError as e:
                return {"observed": str(e)[:100], "violates": "combination_consistent=False" not in str(e)}
            except Exception as e:  # noqa: BLE001
                return {"observed": drive.exc_obs(e), "violates": True}
        qs = [opsem.tup(cs["query_f"])] if cs.get("query_f") else scopes.semclass_reps(scopes.C2, scopes.SIG2) if len(sig) == 2 else []
        final_checks(r, self.id, sig, conds, facts, cs["extended"], rr, qs, cs.get("how", "node"), with_operator=True, keys=cs.get("keys"))
        return {"observed": [v["observed"] for v in r.violations[:3]], "violates": bool(r.violations)}


CHECK = C16()
