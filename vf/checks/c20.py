"""C20 saved ranking functions and metadata reload to behaviourally identical objects; failing saves leave the object usable."""
import io
import itertools
import json
import os
import pathlib
import pickle
import shutil
import subprocess
import sys
import tempfile

from .. import drive, forms, opsem, ref, scopes
from ..forms import A, N, O, V
from ..runner import VERIF, Check, Result
from .c16 import build as build_sysz
from .c18 import mk_custom

a, b, c = V("a"), V("b"), V("c")
QUERIES2 = scopes.semclass_reps(scopes.C2, scopes.SIG2)[2::6]
QUERIES3 = scopes.literal_queries3()[::7]
META_MENU = [
    {}, {"k": 1}, {"name": "x", "n": 0, "f": 1.5, "t": True, "none": None}, {"nested": {"a": [1, 2, {"b": "c"}], "e": []}},
    {"unicode": "ä€", "empty": "", "list": [[], [[]], [1.0, -2, "3"]]}, {"big": 2 ** 70, "neg": -1, "exp": 1e-9},
]


def make(kind, sig, conds, extra):
    """kind -> fresh implementation object."""
    from inference.preocf import PreOCF, RandomMinCRepPreOCF

    if kind == "custom":
        return mk_sparse(sig, extra)
    if kind == "sysz":
        return build_sysz(sig, conds, extra[0], extra[1])
    if kind == "crep":
        return PreOCF.init_random_min_c_rep(drive.mkbb(sig, conds))
    if kind == "crep-list":
        return RandomMinCRepPreOCF.init_with_impacts_list(drive.mkbb(sig, conds), list(extra))
    raise ValueError(kind)


def mk_sparse(sig, table):
    """Custom object; None entries of the table are worlds the object does not know at all."""
    from inference.preocf import PreOCF

    ranks = {forms.world_str(sig, w): r for w, r in enumerate(table) if r is not None}
    return PreOCF.init_custom(ranks, signature=list(sig))


def snapshot(obj, queries):
    """Observable content of a live object (completes the ranks)."""
    return {"signature": list(obj.signature), "ranks": dict(obj.compute_all_ranks()),
            "impacts": list(obj._impacts) if getattr(obj, "_impacts", None) is not None and hasattr(obj, "_impacts") else None,
            "acceptance": [bool(obj.conditional_acceptance(drive.mkcond(q))) for q in queries]}


class FailingFile:
    """File object whose k-th write raises."""

    def __init__(self, real, k, counter):
        self.real = real
        self.k = k
        self.counter = counter

    def write(self, data):
        self.counter[0] += 1
        if self.k is not None and self.counter[0] >= self.k:
            raise OSError(28, "No space left on device (injected at write #%d)" % self.counter[0])
        return self.real.write(data)

    def __enter__(self):
        return self

    def __exit__(self, *a):
        self.real.close()
        return False

    def __getattr__(self, name):
        return getattr(self.real, name)


class patched_open:
    """pathlib.Path.open for write modes returns a FailingFile (k=None: only counts writes; k=0: open itself fails)."""

    def __init__(self, k):
        self.k = k
        self.counter = [0]

    def __enter__(self):
        self.saved = pathlib.Path.open
        saved = self.saved
        me = self

        def opn(path, mode="r", *a, **kw):
            if "w" in mode:
                if me.k == 0:
                    raise PermissionError(13, "Permission denied (injected)")
                return FailingFile(saved(path, mode, *a, **kw), me.k, me.counter)
            return saved(path, mode, *a, **kw)
        pathlib.Path.open = opn
        return self

    def __exit__(self, *a):
        pathlib.Path.open = self.saved
        return False


class Unpicklable:
    def __reduce__(self):
        raise TypeError("cannot pickle this member (injected)")


class C20(Check):
    id = "C20"
    level = "fault_enumeration"
    rule = ("E-seq + E-env on the real ranking objects. Object kinds: custom tables, System Z (with/without facts, strict/extended), "
            "c-representation, objects built from an impact list. (A) for every kind and base of the scope and EVERY "
            "partial-computation state (all 16 subsets of computed worlds over 2 atoms; all prefixes and singletons over 3 "
            "atoms): save_ocf, then load_ocf in the same process and in a FRESH interpreter (one sub-process per task, which first "
            "allocates unrelated formula nodes): signature, ranks as saved, ranks after lazy continuation in a rotated order and "
            "after completion, impacts, acceptance of a query list and of the object's own conditionals must equal the "
            "original's. (B) impacts (also vectors of 9..24 pairwise distinct components on list-built objects): export/import in json and pickle, save_impacts/load_impacts, init_with_impacts(_list) round "
            "trip unchanged and rebuild the same ranking. (C) metadata: 6 JSON-representable dictionaries x {json, pickle, suffix "
            "inferred from .json/.pkl/.pickle, explicit fmt} round trip identically. (D) crash points: save_ocf, "
            "export_impacts and save_metadata with the target's open failing and with the k-th write failing for EVERY k of the "
            "fault-free run, and with an unpicklable member planted in each attribute in turn; afterwards the in-memory object "
            "must have _optimizer/_csp restored, unchanged ranks/impacts/metadata and still answer. distinct_nontrivial = "
            "distinct (object, state, channel) round trips and distinct (object, operation, failure point) injections.")
    assumptions = ["the fresh interpreter is a sub-process of the same Python installation",
                   "time stamps / provenance keys that import_impacts and load_impacts add to the metadata are ignored"]
    audit_tasks = 3

    def tasks(self):
        quick = self.tier == "quick"
        out = []
        reps2, _ = scopes.structural_scope(scopes.C2_sub(), scopes.SIG2, 2, ("strong", "weak-finite"), self.seed, 1, minsize=2)
        reps2 = reps2[self.seed % 5::5] if quick else reps2[::2]
        for conds, cls in reps2:
            out.append(("roundtrip", scopes.SIG2, conds, cls))
        reps3, _ = scopes.structural_scope(scopes.L3, scopes.SIG3, 3, ("strong", "weak-finite"), self.seed, 1)
        reps3 = [r for r in reps3 if len(r[0]) == 3]
        for conds, cls in (reps3[self.seed % 8::8] if quick else reps3[::2]):
            out.append(("roundtrip", scopes.SIG3, conds, cls))
        for tb in ((0, 1, 2, 0), (3, 3, 0, 1), (0, 0, 0, 0)):
            out.append(("custom", scopes.SIG2, tb))
        out.append(("custom", scopes.SIG3, (0, 2, 1, 1, 0, 3, 2, 0)))
        # custom objects whose table covers only some worlds (e.g. the result of a conditionalisation)
        out.append(("custom", scopes.SIG3, (0, 2, None, 1, None, None, 2, 0)))
        out.append(("custom", scopes.SIG2, (1, None, 0, None)))
        out.append(("metadata",))
        out.append(("empty-base",))
        out.append(("long-impacts",))
        for conds, cls in [r for r in reps2 if r[1] == "strong"][:3]:
            out.append(("crash", scopes.SIG2, conds))
        for conds, cls in [r for r in reps3 if r[1] == "strong"][:2]:
            out.append(("crash", scopes.SIG3, conds))
        return out

    # ------------------------------------------------------------------------------------------------------
    def run(self, task):
        res = Result()
        tmp = tempfile.mkdtemp(prefix="vf-c20-")
        try:
            if task[0] == "roundtrip":
                self.roundtrip(res, tmp, task[1], task[2], task[3])
            elif task[0] == "custom":
                self.roundtrip_custom(res, tmp, task[1], task[2])
            elif task[0] == "metadata":
                self.metadata(res, tmp)
            elif task[0] == "empty-base":
                self.empty_base(res, tmp)
            elif task[0] == "long-impacts":
                self.long_impacts(res, tmp)
            else:
                self.crash(res, tmp, task[1], task[2])
        finally:
            shutil.rmtree(tmp, ignore_errors=True)
        res.digest = (res.evals, [repr(v["observed"])[:80] for v in res.violations[:6]], sorted(res.counters.items()))
        return res

    def states_for(self, sig):
        worlds = [forms.world_str(sig, w) for w in range(1 << len(sig))]
        if len(sig) == 2:
            return [list(s) for k in range(len(worlds) + 1) for s in itertools.combinations(worlds, k)]
        return [worlds[:k] for k in range(len(worlds) + 1)] + [[w] for w in worlds[1:]]

    def object_kinds(self, sig, conds, cls):
        kinds = []
        if cls == "strong":
            kinds += [("sysz", ([], False)), ("crep", None)]
        kinds += [("sysz", ([], True)), ("sysz", ([a], None)), ("sysz", ([O(a, N(b))], True))]
        return kinds

    def roundtrip(self, res, tmp, sig, conds, cls):
        queries = QUERIES2 if len(sig) == 2 else QUERIES3
        items = []
        expect = {}
        n = 0
        for kind, extra in self.object_kinds(sig, conds, cls):
            case = {"sig": sig, "conds": [forms.ctxt(x) for x in conds], "conds_f": conds, "kind": kind, "config": kind,
                    "extra": repr(extra)}
            try:
                ref_obj = make(kind, sig, conds, extra)
            except ValueError:
                continue     # combination refused (C16's business)
            except Exception as e:  # noqa: BLE001
                res.violation(self.id, "construct", case, "object", drive.exc_obs(e))
                continue
            want = snapshot(ref_obj, queries)
            states = self.states_for(sig)
            if kind == "crep":
                states = states[:: 3]
            for st in states:
                obj = make(kind, sig, conds, extra)
                for w in st:
                    obj.rank_world(w)
                before = dict(obj.ranks)
                path = os.path.join(tmp, "o%d.pkl" % n)
                n += 1
                res.evals += 1
                c2 = dict(case, computed=list(st))
                try:
                    obj.save_ocf(path)
                except Exception as e:  # noqa: BLE001
                    res.violation(self.id, "save-raises", c2, "file written", drive.exc_obs(e))
                    continue
                # the in-memory object is unchanged and usable
                if dict(obj.ranks) != before or (kind == "crep" and (obj._optimizer is None or obj._csp is None)):
                    res.violation(self.id, "save-mutates", c2, "unchanged object", {"ranks": dict(obj.ranks)})
                # same-process load
                try:
                    from inference.preocf import PreOCF

                    o2 = PreOCF.load_ocf(path, trusted=True)
                    loaded_ranks = dict(o2.ranks)
                    order = [forms.world_str(sig, w) for w in range(1 << len(sig))]
                    k = len(st) % len(order)
                    lazy = {w: o2.rank_world(w) for w in (order[k:] + order[:k])[:3]}
                    got = snapshot(o2, queries)
                    res.outcomes.add(tuple(sorted(want["ranks"].values())))
                    if loaded_ranks != before or got != want or any(lazy[w] != want["ranks"][w] for w in lazy):
                        res.violation(self.id, "reload-differs", dict(c2, channel="same-process"), want, {"as_loaded": loaded_ranks, "completed": got})
                    else:
                        res.nontrivial.add(hash((tuple(conds), kind, repr(extra), tuple(st), "same")))
                except Exception as e:  # noqa: BLE001
                    res.violation(self.id, "load-raises", dict(c2, channel="same-process"), "object", drive.exc_obs(e))
                order = [forms.world_str(sig, w) for w in range(1 << len(sig))]
                k = (len(st) + 1) % len(order)
                items.append({"path": path, "queries": queries, "lazy_order": (order[k:] + order[:k])[:3]})
                expect[path] = (c2, before, want)
            res.counters["objects_%s" % kind] += 1
        # fresh interpreter: one sub-process for all files of this task
        self.fresh(res, tmp, items, expect)
        res.samples.append({"base": [forms.ctxt(x) for x in conds], "files_saved": n, "kinds": [k for k, _ in self.object_kinds(sig, conds, cls)]})
        # (B) impacts
        if cls == "strong":
            self.impacts(res, tmp, sig, conds, queries)

    def fresh(self, res, tmp, items, expect):
        if not items:
            return
        job = os.path.join(tmp, "job.json")
        outp = os.path.join(tmp, "out.json")
        json.dump({"items": items, "junk": 37 + len(items)}, open(job, "w"))
        env = dict(os.environ)
        env["PYTHONPATH"] = VERIF + os.pathsep + env.get("PYTHONPATH", "")
        cp = subprocess.run([sys.executable, "-m", "vf.fresh_loader", job, outp], cwd=VERIF, env=env, capture_output=True, text=True)
        if cp.returncode != 0 or not os.path.exists(outp):
            raise RuntimeError("fresh loader failed: %s" % cp.stderr[-600:])
        out = json.load(open(outp))
        for path, (case, before, want) in expect.items():
            r = out[path]
            res.evals += 1
            c2 = dict(case, channel="fresh-interpreter")
            if "error" in r:
                res.violation(self.id, "load-raises", c2, "object", r["error"])
                continue
            got = {"signature": r["signature"], "ranks": r["ranks_completed"], "impacts": r["impacts"], "acceptance": r["acceptance"]}
            if "worlds" in want:
                got["worlds"] = r["worlds"]
            probs = []
            if r["ranks_as_loaded"] != before:
                probs.append("ranks as loaded differ from the saved state")
            if got != want:
                probs.append("completed object differs")
            if any(v != want["ranks"][w] for w, v in r["lazy"].items()):
                probs.append("lazy continuation differs")
            if "own_conditionals_accepted" in r and case["kind"] == "crep" and not all(r["own_conditionals_accepted"]):
                probs.append("own conditionals no longer accepted")
            if probs:
                res.violation(self.id, "reload-differs", c2, want, {"problems": probs, "as_loaded": r["ranks_as_loaded"], "completed": got})
            else:
                res.nontrivial.add(hash((path, repr(case), "fresh")))
        res.counters["fresh_interpreter_loads"] += len(expect)

    def roundtrip_custom(self, res, tmp, sig, table):
        queries = QUERIES2 if len(sig) == 2 else QUERIES3
        want = snapshot(mk_sparse(sig, table), queries)
        want["worlds"] = sorted(mk_sparse(sig, table).ranks)
        items, expect = [], {}
        case = {"sig": sig, "prior": list(table), "kind": "custom", "config": "custom", "conds_f": []}
        from inference.preocf import PreOCF

        for i, meta in enumerate(META_MENU):
            obj = mk_sparse(sig, table)
            for k, v in meta.items():
                obj.save_meta(k, v)
            path = os.path.join(tmp, "c%d.pkl" % i)
            res.evals += 1
            obj.save_ocf(path)
            o2 = PreOCF.load_ocf(path, trusted=True)
            try:
                got2 = snapshot(o2, queries)
                got2["worlds"] = sorted(o2.ranks)
            except Exception as e:  # noqa: BLE001
                got2 = drive.exc_obs(e)
            if got2 != want or o2.metadata != meta:
                res.violation(self.id, "reload-differs", dict(case, channel="same-process", metadata=meta), want, {"ranks": dict(o2.ranks), "metadata": o2.metadata})
            else:
                res.nontrivial.add(hash((tuple(table), i, "custom")))
            items.append({"path": path, "queries": queries, "lazy_order": []})
            expect[path] = (dict(case, metadata=meta), dict(obj.ranks), want)
        self.fresh(res, tmp, items, expect)
        res.counters["objects_custom"] += 1
        res.samples.append({"custom_table": list(table), "signature": sig})

    def impacts(self, res, tmp, sig, conds, queries):
        from inference.preocf import RandomMinCRepPreOCF

        case = {"sig": sig, "conds": [forms.ctxt(x) for x in conds], "conds_f": conds, "kind": "crep", "config": "impacts"}
        obj = make("crep", sig, conds, None)
        want = snapshot(obj, queries)
        imp = obj.save_impacts()
        for fmt, suffix in (("json", ".json"), ("pickle", ".pkl"), ("pickle", ".bin")):
            path = os.path.join(tmp, "imp" + suffix)
            res.evals += 1
            try:
                obj.export_impacts(path, fmt=fmt)
                o2 = RandomMinCRepPreOCF.init_with_impacts(drive.mkbb(sig, conds), path)
                got = snapshot(o2, queries)
                o3 = make("crep", sig, conds, None)
                o3._impacts = [x + 5 for x in o3._impacts]
                o3.import_impacts(path)
                o3.ranks = dict.fromkeys(o3.ranks, None)
                got3 = snapshot(o3, queries)
            except Exception as e:  # noqa: BLE001
                res.violation(self.id, "impacts-raises", dict(case, channel=fmt + suffix), "round trip", drive.exc_obs(e))
                continue
            if got != want or got3 != want or o2.save_impacts() != imp:
                res.violation(self.id, "impacts-differ", dict(case, channel=fmt + suffix), want, {"init_with_impacts": got, "import_impacts": got3})
            else:
                res.nontrivial.add(hash((tuple(conds), fmt, suffix)))
        res.evals += 1
        try:
            o4 = make("crep-list", sig, conds, imp)
            got4 = snapshot(o4, queries)
            o5 = make("crep", sig, conds, None)
            o5.load_impacts(list(imp))
            o5.ranks = dict.fromkeys(o5.ranks, None)
            ok = got4 == want and snapshot(o5, queries) == want and o4.save_impacts() == imp
        except Exception as e:  # noqa: BLE001
            res.violation(self.id, "impacts-raises", dict(case, channel="list"), "round trip", drive.exc_obs(e))
            return
        if not ok:
            res.violation(self.id, "impacts-differ", dict(case, channel="list"), want, got4)
        else:
            res.nontrivial.add(hash((tuple(conds), "list")))
        # an object built from an impact list survives save/load in a fresh interpreter too
        path = os.path.join(tmp, "fromlist.pkl")
        o4 = make("crep-list", sig, conds, imp)
        o4.save_ocf(path)
        self.fresh(res, tmp, [{"path": path, "queries": queries, "lazy_order": []}],
                   {path: (dict(case, kind="crep-list"), dict(o4.ranks), want)})

    def empty_base(self, res, tmp):
        """Degenerate but legitimate objects: the ranking built from the empty impact vector of a base without conditionals."""
        from inference.preocf import RandomMinCRepPreOCF

        for sig in (scopes.SIG2, scopes.SIG3):
            queries = QUERIES2 if len(sig) == 2 else QUERIES3
            case = {"sig": sig, "conds": [], "conds_f": [], "kind": "crep-list", "config": "empty-base"}
            res.evals += 1
            try:
                o = RandomMinCRepPreOCF.init_with_impacts_list(drive.mkbb(sig, []), [])
                want = snapshot(o, queries)
                got_list = o.save_impacts()
                probs = []
                if got_list != []:
                    probs.append("save_impacts() = %r" % (got_list,))
                for fmt, suffix in (("json", ".json"), ("pickle", ".pkl")):
                    path = os.path.join(tmp, "empty" + suffix)
                    o.export_impacts(path, fmt=fmt)
                    o2 = RandomMinCRepPreOCF.init_with_impacts(drive.mkbb(sig, []), path)
                    if snapshot(o2, queries) != want or o2.save_impacts() != []:
                        probs.append("round trip through %s differs" % fmt)
                path = os.path.join(tmp, "empty-ocf.pkl")
                o.save_ocf(path)
                self.fresh(res, tmp, [{"path": path, "queries": queries, "lazy_order": []}], {path: (case, dict(o.ranks), want)})
            except Exception as e:  # noqa: BLE001
                res.violation(self.id, "impacts-raises", dict(case, channel="empty"), "round trip of the empty impact vector", drive.exc_obs(e))
                continue
            if probs:
                res.violation(self.id, "impacts-differ", dict(case, channel="empty"), "unchanged", probs)
            else:
                res.nontrivial.add(hash((tuple(sig), "empty-base")))
        res.samples.append({"empty_base_objects": 2})

    def long_impacts(self, res, tmp):
        """Impact vectors with 9..24 components (two-digit positions), pairwise distinct values, on objects built from a list
        (no solver involved): every export/import channel must give back the same vector in the same order and the same ranking."""
        from inference.preocf import RandomMinCRepPreOCF

        sig = scopes.SIG3
        queries = QUERIES3
        for n in (9, 10, 11, 12, 13, 21, 24):
            conds = list(scopes.L3[:n])
            for variant, imp in (("ascending", [i + 1 for i in range(n)]), ("descending", [n - i for i in range(n)]),
                                 ("mixed", [(7 * i + 3) % (n + 1) for i in range(n)])):
                case = {"sig": sig, "conds": [forms.ctxt(x) for x in conds], "conds_f": [], "kind": "crep-list", "config": "long-impacts",
                        "impacts": imp}
                res.evals += 1
                probs = []
                try:
                    o = RandomMinCRepPreOCF.init_with_impacts_list(drive.mkbb(sig, conds), list(imp))
                    want = snapshot(o, queries)
                    if o.save_impacts() != imp:
                        probs.append("save_impacts() = %r" % (o.save_impacts(),))
                    for fmt, suffix in (("json", ".json"), ("pickle", ".pkl")):
                        path = os.path.join(tmp, "long%d%s" % (n, suffix))
                        o.export_impacts(path, fmt=fmt)
                        o2 = RandomMinCRepPreOCF.init_with_impacts(drive.mkbb(sig, conds), path)
                        if o2.save_impacts() != imp or snapshot(o2, queries) != want:
                            probs.append("init_with_impacts(%s): %r" % (fmt, o2.save_impacts()))
                        o3 = RandomMinCRepPreOCF.init_with_impacts_list(drive.mkbb(sig, conds), [0] * n)
                        o3.import_impacts(path)
                        o3.ranks = dict.fromkeys(o3.ranks, None)
                        if o3.save_impacts() != imp or snapshot(o3, queries) != want:
                            probs.append("import_impacts(%s): %r" % (fmt, o3.save_impacts()))
                    o4 = RandomMinCRepPreOCF.init_with_impacts_list(drive.mkbb(sig, conds), [0] * n)
                    o4.load_impacts(list(o.save_impacts()))
                    o4.ranks = dict.fromkeys(o4.ranks, None)
                    if snapshot(o4, queries) != want:
                        probs.append("load_impacts(save_impacts()) differs")
                    path = os.path.join(tmp, "long%d-ocf.pkl" % n)
                    o.save_ocf(path)
                    self.fresh(res, tmp, [{"path": path, "queries": queries, "lazy_order": []}], {path: (case, dict(o.ranks), want)})
                except Exception as e:  # noqa: BLE001
                    res.violation(self.id, "impacts-raises", dict(case, channel=variant), "round trip of a long impact vector", drive.exc_obs(e))
                    continue
                if probs:
                    res.violation(self.id, "impacts-differ", dict(case, channel=variant), {"impacts": imp}, probs)
                else:
                    res.nontrivial.add(hash((n, variant, "long-impacts")))
        res.samples.append({"long_impact_vectors": 21})

    def metadata(self, res, tmp):
        obj0 = mk_custom(scopes.SIG2, (0, 1, 2, 3))
        for i, meta in enumerate(META_MENU):
            for fname, fmt in (("m.json", "json"), ("m.json", "pickle"), ("m.pkl", "json"), ("m.pickle", "json"), ("m.dat", "json"), ("m.dat", "pickle"), ("m", "json")):
                obj = mk_custom(scopes.SIG2, (0, 1, 2, 3))
                for k, v in meta.items():
                    obj.save_meta(k, v)
                path = os.path.join(tmp, "%d-%s-%s" % (i, fmt, fname))
                res.evals += 1
                case = {"metadata": meta, "file": fname, "fmt": fmt, "config": "metadata", "conds_f": []}
                try:
                    obj.save_metadata(path, fmt=fmt)
                    o2 = mk_custom(scopes.SIG2, (0, 1, 2, 3))
                    # the on-disk format is what the suffix says; loading infers it from the suffix (.json) or assumes pickle
                    actual = "json" if fname.endswith(".json") else "pickle" if fname.endswith((".pkl", ".pickle")) else fmt
                    lp = path
                    if actual == "json" and not fname.endswith(".json"):
                        lp = path + ".json"
                        os.replace(path, lp)
                    o2.load_metadata(lp)
                    got = o2.metadata
                except Exception as e:  # noqa: BLE001
                    res.violation(self.id, "metadata-raises", case, meta, drive.exc_obs(e))
                    continue
                if got != meta or repr(got) != repr(meta):
                    res.violation(self.id, "metadata-differs", case, meta, got)
                elif meta:
                    res.nontrivial.add(hash((i, fname, fmt)))
        res.counters["metadata_roundtrips"] += res.evals
        res.samples.append({"metadata_menu": len(META_MENU)})

    def crash(self, res, tmp, sig, conds):
        queries = QUERIES2 if len(sig) == 2 else QUERIES3
        case = {"sig": sig, "conds": [forms.ctxt(x) for x in conds], "conds_f": conds, "config": "crash"}

        def fresh_obj(kind):
            o = make(kind, sig, conds, None if kind == "crep" else ([], False))
            o.rank_world(forms.world_str(sig, 1))
            o.save_meta("note", {"x": [1, 2, 3], "y": "z" * 50})
            return o

        def state(o):
            return (dict(o.ranks), list(getattr(o, "_impacts", []) or []), json.dumps(o.metadata, sort_keys=True, default=str),
                    getattr(o, "_optimizer", "n/a") is not None, getattr(o, "_csp", "n/a") is not None)

        ops = [("save_ocf", lambda o, p: o.save_ocf(p)), ("save_metadata-json", lambda o, p: o.save_metadata(p + ".json")),
               ("save_metadata-pickle", lambda o, p: o.save_metadata(p + ".pkl"))]
        for kind in ("crep", "sysz"):
            kops = list(ops)
            if kind == "crep":
                kops += [("export_impacts-json", lambda o, p: o.export_impacts(p + ".json", fmt="json")),
                         ("export_impacts-pickle", lambda o, p: o.export_impacts(p + ".pkl", fmt="pickle"))]
            want = snapshot(fresh_obj(kind), queries)
            for opname, fn in kops:
                with patched_open(None) as po:
                    fn(fresh_obj(kind), os.path.join(tmp, "dry"))
                nwrites = po.counter[0]
                res.counters["crash_points_%s" % opname] += nwrites + 1
                for k in range(0, nwrites + 1):
                    o = fresh_obj(kind)
                    before = state(o)
                    res.evals += 1
                    raised = None
                    try:
                        with patched_open(k):
                            fn(o, os.path.join(tmp, "f%d" % k))
                    except (OSError, PermissionError) as e:
                        raised = type(e).__name__
                    except Exception as e:  # noqa: BLE001
                        raised = "other:" + type(e).__name__
                    c2 = dict(case, kind=kind, operation=opname, fail_at_write=k, tname=opname)
                    after = state(o)
                    res.outcomes.add((opname, raised))
                    try:
                        usable = snapshot(o, queries) == want
                    except Exception as e:  # noqa: BLE001
                        usable = drive.exc_obs(e)
                    if raised is None:
                        res.violation(self.id, "failure-swallowed", c2, "the injected I/O error is reported", "no exception")
                    elif after != before or usable is not True:
                        res.violation(self.id, "failed-save-damages-object", c2, {"state": before},
                                      {"state": after, "still_answers_as_before": usable, "raised": raised})
                    else:
                        res.nontrivial.add(hash((tuple(conds), kind, opname, k)))
            # unserialisable member planted in each attribute in turn
            o = fresh_obj(kind)
            for attr in sorted(o.__dict__):
                if attr in ("_optimizer", "_csp"):
                    continue
                o = fresh_obj(kind)
                before = state(o)
                old = o.__dict__[attr]
                o.__dict__[attr] = Unpicklable()
                res.evals += 1
                raised = None
                try:
                    o.save_ocf(os.path.join(tmp, "u.pkl"))
                except Exception as e:  # noqa: BLE001
                    raised = type(e).__name__
                o.__dict__[attr] = old
                after = state(o)
                c2 = dict(case, kind=kind, operation="save_ocf", planted_in=attr, tname="unpicklable")
                try:
                    usable = snapshot(o, queries) == want
                except Exception as e:  # noqa: BLE001
                    usable = drive.exc_obs(e)
                if raised is None:
                    res.violation(self.id, "failure-swallowed", c2, "pickling error reported", "no exception")
                elif after != before or usable is not True:
                    res.violation(self.id, "failed-save-damages-object", c2, {"state": before}, {"state": after, "still_answers_as_before": usable})
                else:
                    res.nontrivial.add(hash((tuple(conds), kind, "unpicklable", attr)))
        res.samples.append({"base": case["conds"], "operations": [n for n, _ in ops], "crash_points": res.evals})

    def replay(self, rec):
        cs = rec["case"]
        r = Result()
        tmp = tempfile.mkdtemp(prefix="vf-c20-")
        try:
            conds = [opsem.tup(x) for x in cs.get("conds_f", [])]
            if cs["config"] == "crash":
                self.crash(r, tmp, cs["sig"], conds)
            elif cs["config"] == "metadata":
                self.metadata(r, tmp)
            elif cs["config"] == "empty-base":
                self.empty_base(r, tmp)
            elif cs["config"] == "long-impacts":
                self.long_impacts(r, tmp)
            elif cs["config"] == "custom":
                self.roundtrip_custom(r, tmp, cs["sig"], tuple(cs["prior"]))
            else:
                sems = [forms.sem(x, cs["sig"]) for x in conds]
                self.roundtrip(r, tmp, cs["sig"], conds, ref.classify(sems, forms.allmask(cs["sig"])))
        finally:
            shutil.rmtree(tmp, ignore_errors=True)
        same = [v for v in r.violations if v["kind"] == rec["kind"]]
        return {"observed": [v["observed"] for v in same[:2]], "violates": bool(same)}


CHECK = C20()
