import warnings, logging, os, pickle, itertools, time
warnings.filterwarnings("ignore"); logging.disable(logging.CRITICAL)
import drv, ref
from ref import *
import inference.inference as inf
from inference.queries import Queries
from inference.inference_manager import InferenceManager

class Sched:
    """decides, at each parent yield point, which pending workers deliver; and whether join times out"""
    def __init__(self, choices): self.choices=list(choices); self.i=0; self.trace=[]
    def choose(self, kind, options):
        if self.i < len(self.choices): c=self.choices[self.i]
        else: c=0
        assert c < len(options), "replay diverged"
        self.i+=1; self.trace.append((kind, len(options), c)); return options[c]
SCHED=None
class FakeDict(dict): pass
class FakeManager:
    def __enter__(self): return self
    def __exit__(self,*a): return False
    def dict(self): return FakeDict()
class FakeProcess:
    def __init__(self, target, args):
        self.target=target; self.args=args; self.state="new"; self.writes=None
    def start(self):
        r,w=os.pipe(); pid=os.fork()
        if pid==0:
            os.close(r); rec={}
            try:
                idx,q,_d,timeout=self.args
                self.target(idx,q,rec,timeout); out=("ok",rec)
            except BaseException as e: out=("exc",repr(e))
            os.write(w,pickle.dumps(out)); os._exit(0)
        os.close(w); data=b""
        while True:
            ch=os.read(r,65536)
            if not ch: break
            data+=ch
        os.close(r); os.waitpid(pid,0)
        self.writes=pickle.loads(data); self.state="running"   # computed, not yet delivered
    def _deliver(self):
        if self.state=="running":
            kind,rec=self.writes
            if kind=="ok":
                for k,v in rec.items(): self.args[2][k]=v
            self.state="done"
    def join(self, timeout=None):
        if self.state=="running":
            if timeout is None or SCHED.choose("join",["complete","timeout"])=="complete": self._deliver()
    def is_alive(self):
        if self.state=="running":
            # worker may finish between join's return and this check
            if SCHED.choose("alive",["still","finished"])=="finished": self._deliver()
        return self.state=="running"
    def terminate(self):
        if self.state=="running":
            if SCHED.choose("term",["killed","wrote-first"])=="wrote-first": self._deliver()
            self.state="killed"
class FakeMP:
    Manager=FakeManager
    Process=FakeProcess
    @staticmethod
    def active_children(): return []
inf.mp=FakeMP

a,b,c = V("a"),V("b"),V("c")
SIG=["a","b","c"]
conds=[(a,b),(a,N(b)),(c,N(a)),(N(a),c)]
qs=[(c,a),(N(c),A(a,b)),(b,O(a,c))]
def run(choices, keys):
    global SCHED
    SCHED=Sched(choices)
    bb=drv.mkbb(SIG,conds)
    qd={k:drv.mkcond(q) for k,q in zip(keys,qs)}
    m=InferenceManager(bb,"system-w",pmaxsat_solver="rc2")
    try:
        df=m.inference(Queries(qd), multi_inference=True, inference_timeout=1000)
        obs=list(zip(df['index'],df['query'],df['result'],df['inference_timed_out']))
    except BaseException as e:
        obs=("EXC",type(e).__name__,str(e)[:80])
    return obs, SCHED.trace
# DFS over choices
t=time.time(); seen=0; outcomes={}
stack=[[]]
while stack:
    pre=stack.pop()
    obs,trace=run(pre,[1,2,3])
    seen+=1
    outcomes.setdefault(str(obs),[]).append(pre)
    for i in range(len(pre),len(trace)):
        kind,n,c=trace[i]
        for alt in range(1,n):
            stack.append([t_[2] for t_ in trace[:i]]+[alt])
print("executions",seen,"distinct outcomes",len(outcomes),"time",round(time.time()-t,1))
for o,p in outcomes.items(): print(o, p[0])
