import warnings, logging, traceback, sys, signal
warnings.filterwarnings("ignore"); logging.disable(logging.CRITICAL)
import drv, ref
from ref import *
from inference.preocf import PreOCF
from inference.c_revision import c_inference_pareto_front, c_revision, c_revision_pareto_front, compile_alt, compile_alt_fast
from inference.c_revision_model import CRevisionModel
a,b,c = V("a"),V("b"),V("c")
def alarm(*_): raise TimeoutError("horizon")
signal.signal(signal.SIGALRM, alarm)
for conds in [[(b,a)], [(b,a),(a,b)], [(b,a),(N(b),A(a,c))], [(a,a),(b,a)], [(b,a),(c,TOP)]]:
    bb=drv.mkbb(["a","b","c"],conds)
    try:
        o=PreOCF.init_random_min_c_rep(bb)
        print(conds, "impacts", o._impacts)
    except BaseException as e:
        print(conds,"init EXC",type(e).__name__,str(e)[:80])
    signal.alarm(10)
    try:
        print("  front", c_inference_pareto_front(bb))
    except BaseException as e:
        print("  front EXC",type(e).__name__,str(e)[:80])
    signal.alarm(0)
    signal.alarm(10)
    try:
        print("  front max5", c_inference_pareto_front(bb, max_solutions=5))
    except BaseException as e:
        print("  front EXC",type(e).__name__,str(e)[:80])
    signal.alarm(0)
# c-revision
ranks={format(i,"03b"):0 for i in range(8)}
pre=PreOCF.init_custom(ranks, signature=["a","b","c"])
for conds in [[(b,a)], [(b,a),(N(b),A(a,c))], [(a,a),(b,a)], [(b,a),(N(b),a)], [(O(b,c),a),(N(b),A(a,c))]]:
    cl=[]
    for i,x in enumerate(conds,1):
        k=drv.mkcond(x); k.index=i; cl.append(k)
    for gpz in (True,False):
        signal.alarm(10)
        try:
            print(conds,gpz,c_revision(pre,cl,gamma_plus_zero=gpz))
        except BaseException as e:
            print(conds,gpz,"EXC",type(e).__name__,str(e)[:100])
        signal.alarm(0)
