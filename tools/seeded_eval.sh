#!/bin/bash
# tools/seeded_eval.sh <patch.diff> <check id>... : apply a property-breaking change in a scratch worktree of /repo (outside
# /repo and /verif), run the given quick checks against that tree (VERIF_REPO), print one line per check, remove the worktree.
# Evidence and replay files of these runs go to a temporary directory, never to /verif/evidence.
PATCH="$(readlink -f "$1")"; shift
WT=$(mktemp -d /tmp/vf-seeded-XXXXXX)
OUT=$(mktemp -d /tmp/vf-seeded-out-XXXXXX)
git -C /repo worktree add -q --detach "$WT/tree" HEAD || exit 2
if ! git -C "$WT/tree" apply "$PATCH"; then echo "PATCH DOES NOT APPLY"; git -C /repo worktree remove --force "$WT/tree"; rm -rf "$WT" "$OUT"; exit 2; fi
cd "$(dirname "$0")/.." || exit 2
for c in "$@"; do
  s=$(date +%s)
  out=$(VERIF_REPO="$WT/tree" VERIF_EVIDENCE_DIR="$OUT" VERIF_REPLAY_DIR="$OUT" ./check "$c" --tier "${VERIF_TIER:-quick}" 2>&1); rc=$?
  e=$(date +%s)
  imp=$(echo "$out" | grep -c "repo=$WT/tree")
  echo "$c rc=$rc wall=$((e-s))s tree_ok=$imp $(echo "$out" | grep -E 'evaluations=' | tail -1 | sed 's/.*violations=/violations=/' | cut -c1-60)"
  echo "$out" | grep -E '^(HARNESS-ERROR)' | cut -c1-300 | head -2
  echo "$out" | grep -E 'unlisted violation' | cut -c1-700 | head -1
done
git -C /repo worktree remove --force "$WT/tree"; rm -rf "$WT" "$OUT"
