"""C19 c-revision returns parameters of a ranking that accepts the new conditionals (E-in + E-seq on the incremental model)."""
import collections
import itertools

from .. import drive, forms, opsem, scopes
from ..forms import BOT, TOP, A, N, O, V
from ..runner import Check, Result
from .c18 import mk_custom

a, b, c = V("a"), V("b"), V("c")
SIG1 = ["a"]
# revision conditionals over {a,b}: literal, compound, unfalsifiable, unverifiable
RC2 = [(b, a), (N(b), a), (a, b), (N(a), N(b)), (b, N(a)), (a, TOP), (O(a, b), TOP), (A(a, b), O(a, b)), (N(A(a, b)), TOP),
       (TOP, a), (BOT, a), (b, A(a, N(a))), (N(a), a), (b, N(b))]
RC1 = [(a, TOP), (N(a), TOP), (TOP, a), (BOT, a), (a, a), (N(a), a), (a, N(a)), (N(a), N(a))]
RC3 = [(b, a), (c, b), (N(c), a), (a, O(b, c)), (N(a), A(b, c)), (c, TOP), (TOP, c), (A(a, N(b)), N(c))]
FIXED = [({}, {}), ({0: 0}, {}), ({0: 2}, {}), ({}, {0: 2}), ({0: 1}, {0: 1})]   # (fixed gamma-, fixed gamma+), key 0 = first index


def mkrev(conds, idxs):
    out = []
    for i, x in zip(idxs, conds):
        cnd = drive.mkcond(x)
        cnd.index = i
        out.append(cnd)
    return out


def revised(sig, table, sems, gm, gp):
    return [table[w] + sum(gp[i] for i, (v, f) in sems.items() if v >> w & 1) + sum(gm[i] for i, (v, f) in sems.items() if f >> w & 1)
            for w in range(1 << len(sig))]


def accepts_all(k, sems):
    for _i, (v, f) in sems.items():
        if not v:
            return False
        if f and not min(k[w] for w in forms.bits(v)) < min(k[w] for w in forms.bits(f)):
            return False
    return True


def witness(sig, table, sems, gpz, fm, fp, bound):
    """Some parameter vector in the box {0..bound} (respecting fixed values / gamma+ = 0) whose revised ranking accepts all."""
    idxs = list(sems)
    rm = [[fm[i]] if i in fm else range(bound + 1) for i in idxs]
    rp = [[fp[i]] if i in fp else ([0] if gpz else range(bound + 1)) for i in idxs]
    for gmv in itertools.product(*rm):
        gm = dict(zip(idxs, gmv))
        for gpv in itertools.product(*rp):
            gp = dict(zip(idxs, gpv))
            if accepts_all(revised(sig, table, sems, gm, gp), sems):
                return gm, gp
    return None


def norm_comp(comp):
    v, f = comp
    return tuple({k: sorted((int(t[0]), tuple(sorted(t[1])), tuple(sorted(t[2]))) for t in lst) for k, lst in d.items()} for d in (v, f))


def check_revision(res, prop, sig, table, rconds, idxs, gpz, fixed, how):
    from inference.c_revision import c_revision
    from inference.c_revision_model import CRevisionModel

    sems = {i: forms.sem(x, sig) for i, x in zip(idxs, rconds)}
    fm = {idxs[k]: v for k, v in fixed[0].items() if k < len(idxs)}
    fp = {idxs[k]: v for k, v in fixed[1].items() if k < len(idxs)}
    case = {"sig": list(sig), "prior": list(table), "rev": [forms.ctxt(x) for x in rconds], "rev_f": rconds, "indices": list(idxs),
            "gamma_plus_zero": gpz, "fixed_minus": {str(k): v for k, v in fm.items()}, "fixed_plus": {str(k): v for k, v in fp.items()},
            "config": how, "tname": "gpz" if gpz else "free", "has_fixed": bool(fm or fp), "several_conditionals": len(idxs) >= 2,
            "has_unfalsifiable": any(f == 0 for _v, f in sems.values()), "has_unverifiable": any(v == 0 for v, _f in sems.values())}
    res.evals += 1
    try:
        pre = mk_custom(sig, table)
        rc = mkrev(rconds, idxs)
        kw = {}
        if how == "model":
            kw["model"] = CRevisionModel(pre, rc)
        out = c_revision(pre, rc, gamma_plus_zero=gpz, fixed_gamma_minus=fm or None, fixed_gamma_plus=fp or None, **kw)
    except BaseException as e:  # noqa: BLE001
        if isinstance(e, (KeyboardInterrupt, SystemExit, MemoryError)):
            raise
        res.violation(prop, "raises", case, "parameters or None", drive.exc_obs(e))
        return "exc"
    if out is None:
        w = witness(sig, table, sems, gpz, fm, fp, 3 if len(idxs) <= 2 else 2)
        res.outcomes.add("none")
        if w is not None:
            res.violation(prop, "none-but-solvable", case, {"gamma-": w[0], "gamma+": w[1]}, None)
            return "bad"
        res.counters["returned_none_no_witness_in_box"] += 1
        return "none"
    gm, gp, probs = {}, {}, []
    for i in idxs:
        for name, store, fx in (("gamma-_%d" % i, gm, fm), ("gamma+_%d" % i, gp, fp)):
            val = out.get(name)
            if val is None:
                if name.startswith("gamma+") :
                    val = 0
                    res.counters["gamma_plus_missing_taken_as_0"] += 1
                else:
                    probs.append("%s missing" % name)
                    val = 0
            if isinstance(val, bool) or not isinstance(val, int) or val < 0:
                probs.append("%s = %r is not a natural number" % (name, val))
                val = 0
            if i in fx and val != fx[i]:
                probs.append("%s = %r but fixed to %r" % (name, val, fx[i]))
            store[i] = val
        if gpz and i not in fp and gp[i] != 0:
            probs.append("gamma+_%d = %r although gamma_plus_zero" % (i, gp[i]))
    k = revised(sig, table, sems, gm, gp)
    if not accepts_all(k, sems):
        probs.append("revised ranking %r does not accept every revision conditional" % (k,))
    if probs:
        res.violation(prop, "parameters", case, "natural numbers respecting fixed values whose revised ranking accepts all", {"returned": {x: out[x] for x in sorted(out) if x.startswith("gamma")}, "problems": probs[:3]})
        return "bad"
    res.outcomes.add(tuple(sorted(gm.items())))
    if gpz and not fp:
        free = [i for i in idxs if i not in fm]
        for vec in itertools.product(*[range(gm[i] + 1) for i in free]):
            g2 = dict(gm)
            g2.update(zip(free, vec))
            if g2 != gm and accepts_all(revised(sig, table, sems, g2, gp), sems):
                res.violation(prop, "not-pareto-minimal", case, "no solution below the gamma- vector", {"returned": gm, "smaller_solution": g2})
                return "bad"
        res.counters["pareto_boxes_enumerated"] += 1
    if any(gm.values()) or any(gp.values()):
        res.nontrivial.add(hash((tuple(table), tuple(rconds), gpz, repr(fixed), how)))
    return "ok"


def check_compilations(res, prop, sig, table, rconds, idxs):
    from inference.c_revision import compile_alt, compile_alt_fast
    from inference.c_revision_model import CRevisionModel

    case = {"sig": list(sig), "prior": list(table), "rev": [forms.ctxt(x) for x in rconds], "rev_f": rconds, "indices": list(idxs), "config": "compile"}
    res.evals += 1
    try:
        pre = mk_custom(sig, table)
        r1 = norm_comp(compile_alt(pre, mkrev(rconds, idxs)))
        r2 = norm_comp(compile_alt_fast(mk_custom(sig, table), mkrev(rconds, idxs)))
        r3 = norm_comp(CRevisionModel(mk_custom(sig, table), mkrev(rconds, idxs)).to_compilation())
    except Exception as e:  # noqa: BLE001
        res.violation(prop, "compile-raises", case, "three compilations", drive.exc_obs(e))
        return
    # reference semantics of the compilation: per conditional, per verifying/falsifying world: (rank, verified others, falsified others)
    sems = {i: forms.sem(x, sig) for i, x in zip(idxs, rconds)}
    exp = ({}, {})
    for i in idxs:
        for side in (0, 1):
            lst = []
            for w in forms.bits(sems[i][side]):
                lst.append((table[w], tuple(sorted(j for j in idxs if j != i and sems[j][0] >> w & 1)),
                            tuple(sorted(j for j in idxs if j != i and sems[j][1] >> w & 1))))
            exp[side][i] = sorted(lst)
    for name, r in (("reference", r1), ("fast", r2), ("incremental", r3)):
        if r != exp:
            res.violation(prop, "compilation", dict(case, which=name), [dict(exp[0]), dict(exp[1])], [dict(r[0]), dict(r[1])])
            return
    res.nontrivial.add(hash((tuple(table), tuple(rconds), "compile")))


class C19(Check):
    id = "C19"
    level = "model_checking"
    rule = ("E-in: priors = ALL rank tables -> {0..2} over {a} (9) and a third of those over {a,b} (27 of 81, residue chosen by the "
            "seed; thorough: all 81 and all 256 tables -> {0,1} over {a,b,c}) x ALL lists of 1-2 revision conditionals from a "
            "12-element alphabet (literal, compound, unfalsifiable, unverifiable; distinct non-consecutive indices) x "
            "gamma_plus_zero x 5 fixed-value maps x {default (fast) compilation, incremental model}; oracle on the returned "
            "numbers: naturals, fixed values respected, revised ranking k*(w)=k(w)+sum gamma+(verified)+sum gamma-(falsified) "
            "accepts every revision conditional; None only if the box {0..3}^2n holds no witness; no exception; with gamma+ = 0 "
            "Pareto minimality by enumerating the box below the result; compile_alt / compile_alt_fast / CRevisionModel agree "
            "with the definition as multisets. E-seq: CRevisionModel under ALL add/remove sequences of depth <= 3 (thorough 4) over 4 "
            "conditionals (un-merged), plus BFS merged on the set of present indices; invariant: to_compilation() equals a fresh "
            "compile_alt of the present conditionals.")
    assumptions = ["acceptance is checked directly on the returned numbers (sound whatever the search space)",
                   "'None' is judged only against witnesses in a finite box (never a false alarm, may miss larger witnesses)"]

    def tasks(self):
        quick = self.tier == "quick"
        out = []
        t1 = list(itertools.product(range(3), repeat=2))
        for tb in t1:
            out.append(("rev", SIG1, tb, [[x] for x in RC1] + [list(p) for p in itertools.combinations(RC1, 2)]))
        t2 = list(itertools.product(range(3), repeat=4))
        if quick:
            t2 = t2[self.seed % 3::3]
        lists2 = [[x] for x in RC2] + [list(p) for p in itertools.combinations(RC2, 2)] + [[RC2[1], RC2[0]], [RC2[10], RC2[2]]]
        for tb in t2:
            for i in range(0, len(lists2), 20):
                out.append(("rev", scopes.SIG2, tb, lists2[i:i + 20]))
        if quick:       # three atoms, three conditionals: two priors only (thorough: every 4th 0/1 table)
            lists3q = [list(p) for p in itertools.combinations(RC3[:5], 3)] + [list(p) for p in itertools.combinations(RC3[:5], 2)]
            for tb in ((0,) * 8, (0, 1, 2, 0, 1, 2, 0, 1)):
                for i in range(0, len(lists3q), 5):
                    out.append(("rev", scopes.SIG3, tb, lists3q[i:i + 5]))
        if not quick:
            lists3 = [[x] for x in RC3] + [list(p) for p in itertools.combinations(RC3, 2)] + [list(p) for p in itertools.combinations(RC3[:5], 3)]
            for tb in list(itertools.product(range(2), repeat=8))[::4]:
                for i in range(0, len(lists3), 12):
                    out.append(("rev", scopes.SIG3, tb, lists3[i:i + 12]))
        for tb in ((0,) * 8, (0, 1, 2, 0, 1, 2, 0, 1), (3, 0, 0, 1, 2, 2, 0, 1))[: 2 if quick else 3]:
            for first in range(8):
                out.append(("seq", scopes.SIG3, tb, ([RC3[0], RC3[3], RC3[6], RC3[7]], first, 3 if quick else 4)))
                out.append(("seq", scopes.SIG3, tb, ([RC3[1], RC3[2], RC3[4], RC3[5]], first, 3 if quick else 4)))
        out.sort(key=lambda t: 0 if t[0] == "seq" else 1)
        self.ntables = len(t1) + len(t2)
        return out

    def run(self, task):
        res = Result()
        kind, sig, table, payload = task
        dig = []
        if kind == "rev":
            for rconds in payload:
                idxs = [3, 1][: len(rconds)] if len(rconds) <= 2 else [5, 2, 9]
                check_compilations(res, self.id, sig, table, rconds, idxs)
                for gpz in (True, False):
                    for fi, fixed in enumerate(FIXED):
                        if gpz and fixed[1]:
                            continue
                        for how in (("fast", "model") if fi in (0, 2) else ("fast",)):
                            st = check_revision(res, self.id, sig, table, rconds, idxs, gpz, fixed, how)
                            # calls with fixed values hit the recorded finding (free symbols): z3's choice for them is
                            # not reproducible across processes, so they are kept out of the determinism digest
                            if fixed[0] or fixed[1]:
                                res.counters["c_revision_with_fixed_values"] += 1
                            else:
                                res.counters["c_revision_%s" % st] += 1
                                dig.append(st)
            res.samples.append({"prior": list(table), "signature": sig, "revision_lists": len(payload), "example": [forms.ctxt(x) for x in payload[-1]]})
        else:
            self.seq(res, sig, table, payload)
        res.digest = (res.evals, dig, [repr(v["observed"])[:60] for v in res.violations if not v["case"].get("has_fixed")][:5],
                      sorted(res.counters.items()))
        return res

    def seq(self, res, sig, table, payload):
        from inference.c_revision import compile_alt
        from inference.c_revision_model import CRevisionModel

        alpha, first, maxdepth = payload
        idx_of = [4, 0, 4, 2]     # members 0 and 2 share index 4: an index can be re-used for a DIFFERENT conditional after removal
        ops = [("add", j) for j in range(4)] + [("rm", j) for j in range(4)]
        expected = {}

        def run_seq(seq, interleave=False):
            m = CRevisionModel(mk_custom(sig, table), [])
            present = []
            for op, j in seq:
                if op == "add":
                    if any(idx_of[k] == idx_of[j] for k in present):
                        try:
                            m.add_conditional(mkrev([alpha[j]], [idx_of[j]])[0])
                            return None, "add with an index that is already present accepted"
                        except ValueError:
                            continue
                    m.add_conditional(mkrev([alpha[j]], [idx_of[j]])[0])
                    present.append(j)
                    if interleave:
                        m.to_compilation()       # observing the model between operations must not change later results
                else:
                    m.remove_conditional(idx_of[j])
                    present[:] = [k for k in present if idx_of[k] != idx_of[j]]
            return (m, present), None

        def invariant(m, present):
            got = norm_comp(m.to_compilation())
            key = tuple(sorted(present))
            if key not in expected:     # a fresh reference compilation per set of present conditionals (computed once)
                expected[key] = norm_comp(compile_alt(mk_custom(sig, table), mkrev([alpha[j] for j in key], [idx_of[j] for j in key])))
            exp = expected[key]
            return got == exp, got, exp
        ntr = 0
        for d in range(1, maxdepth + 1):
            for seq in itertools.product(ops, repeat=d):
                if seq[0] != ops[first]:
                    continue
                st, err = run_seq(seq, interleave=(ntr % 2 == 1))
                ntr += 1
                res.evals += 1
                if err:
                    res.violation(self.id, "incremental", {"sig": sig, "prior": list(table), "sequence": [list(x) for x in seq], "config": "model-seq",
                                  "alphabet_f": alpha}, "ValueError on duplicate index", err)
                    continue
                ok, got, exp = invariant(*st)
                res.outcomes.add(tuple(sorted(st[1])))
                if not ok:
                    res.violation(self.id, "incremental", {"sig": sig, "prior": list(table), "sequence": [list(x) for x in seq], "config": "model-seq",
                                  "alphabet_f": alpha}, [dict(exp[0]), dict(exp[1])], [dict(got[0]), dict(got[1])])
                elif d == maxdepth:
                    res.nontrivial.add(hash((tuple(table), tuple(alpha), seq)))
        # merged BFS on the set of present indices (once per alphabet: in the task of the first operation)
        seen = {(): ()}
        frontier = collections.deque([()] if first == 0 else [])
        nb = 0
        while frontier:
            st = frontier.popleft()
            for op in ops:
                (m, present), _ = run_seq(seen[st] + (op,))
                nb += 1
                nxt = tuple(sorted(present))
                if nxt not in seen:
                    seen[nxt] = seen[st] + (op,)
                    frontier.append(nxt)
        res.extra["states"] = len(seen)
        res.extra["transitions"] = nb + ntr
        res.extra["traces"] = ntr
        res.counters["model_sequences"] += ntr
        res.samples.append({"prior": list(table), "alphabet": [forms.ctxt(x) for x in alpha], "sequences": ntr, "bfs_states": len(seen)})

    def merge(self, agg, r):
        for k in ("states", "transitions", "traces"):
            agg.extra[k] = agg.extra.get(k, 0) + r.extra.get(k, 0)

    def coverage_extra(self, agg):
        return {"states": max(1, agg.extra.get("states", 0)), "transitions": max(1, agg.extra.get("transitions", 0)),
                "traces_validated_against_impl": agg.extra.get("traces", 0), "prior_tables": self.ntables,
                "explanation": "states/transitions/traces refer to the E-seq part (CRevisionModel add/remove sequences, all executed on the "
                               "real object); evaluations counts E-in cases and sequences together"}

    def replay(self, rec):
        cs = rec["case"]
        r = Result()
        if cs["config"] == "model-seq":
            return {"observed": "re-run the check (sequence family)", "violates": True}
        rconds = [opsem.tup(x) for x in cs["rev_f"]]
        if cs["config"] == "compile":
            check_compilations(r, self.id, cs["sig"], tuple(cs["prior"]), rconds, cs["indices"])
        else:
            idxs = cs["indices"]
            fm = {idxs.index(int(k)): v for k, v in cs["fixed_minus"].items()}
            fp = {idxs.index(int(k)): v for k, v in cs["fixed_plus"].items()}
            check_revision(r, self.id, cs["sig"], tuple(cs["prior"]), rconds, idxs, cs["gamma_plus_zero"], (fm, fp), cs["config"])
        return {"observed": [v["observed"] for v in r.violations[:2]], "violates": bool(r.violations)}


CHECK = C19()
