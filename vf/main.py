"""Entry point: python -m vf.main <ID> [--tier quick|thorough] [--replay path]"""
import argparse
import importlib
import os
import sys


def main():
    ap = argparse.ArgumentParser()
    ap.add_argument("id")
    ap.add_argument("--tier", default=os.environ.get("VERIF_TIER") or "quick", choices=["quick", "thorough"])
    ap.add_argument("--replay")
    ap.add_argument("--replay-inner")
    a = ap.parse_args()
    from . import runner

    mod = importlib.import_module("vf.checks.%s" % a.id.lower())
    check = mod.CHECK
    if a.replay_inner:
        return runner.replay_file(check, a.replay_inner, inner=True)
    if a.replay:
        return runner.replay_file(check, a.replay)
    if hasattr(check, "execute"):
        return check.execute(a.tier)
    return runner.execute(check, a.tier)


if __name__ == "__main__":
    sys.exit(main())
