from .opcheck import OperatorCheck


class C01(OperatorCheck):
    id = "C01"
    use_a4 = {"quick": True, "thorough": True}
    cfgs = ("p",)
    rule = ("E-in: every strongly consistent base of B1 (256 one-conditional bases over the 16 truth functions of {a,b}) x all "
            "264 queries of Q2, of B2 (pairs over the 72-class sub-alphabet) x 81 semantic query classes + 8 foreign-atom "
            "queries, and one representative per conditional structure of all <=4-subsets of the 24 literal conditionals "
            "over {a,b,c} x all type-level queries (|V|<=2,|F|<=2 world types) + 72 literal queries; oracle: "
            "'D u {(!B|A)} has no tolerance partition' by brute force over worlds. plus structure representatives of the <=4-subsets of a 12-element chain/bridge alphabet over FOUR atoms x 124 literal queries. distinct_nontrivial = distinct "
            "(base, query) pairs not decided by a vacuity rule on which implementation and reference agree.")
    assumptions = ["reference model vf/ref.py (self-tested against 'accepted by every ranking model' in setup)",
                   "inputs outside the named scopes are not covered by this check"]


CHECK = C01()
