"""Plain unit tests for recorded violations: `cd /verif && /venv/bin/python -m pytest -q replays/` re-executes every replay file in
this directory (written by the checks when they report a VIOLATION) without the explorer; a test fails while the violation is
still present in /repo's working tree."""
import glob
import importlib
import json
import os
import sys

import pytest

HERE = os.path.dirname(os.path.abspath(__file__))
sys.path.insert(0, os.path.dirname(HERE))
FILES = sorted(glob.glob(os.path.join(os.environ.get("VERIF_REPLAY_DIR") or HERE, "C*-*.json")))


@pytest.mark.parametrize("path", FILES or [None])
def test_replay(path):
    if path is None:
        pytest.skip("no recorded violations")
    rec = json.load(open(path))
    check = importlib.import_module("vf.checks.%s" % rec["property"].lower()).CHECK
    obs = check.replay(rec)
    assert not obs.get("violates", True), "still violates %s: expected %r, observed %r" % (rec["property"], rec.get("expected"), obs)
