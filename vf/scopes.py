"""Named finite scopes (DESIGN.md section 2).  Everything here is pure Python and deterministic."""
import itertools

from . import ref
from .forms import BOT, TOP, A, N, O, V, allmask, bits, cnf, dnf, mask, sem

SIG2 = ["a", "b"]
SIG3 = ["a", "b", "c"]
a, b, c, z = V("a"), V("b"), V("c"), V("z")

# ---------------------------------------------------------------------------------------------------------
# F2: the 16 truth functions over {a,b}: primary form, secondary (equivalent, different nesting) form
# ---------------------------------------------------------------------------------------------------------
_F2 = [
    (TOP, O(a, N(a))),
    (BOT, A(a, N(a))),
    (a, A(a, TOP)),
    (N(a), O(N(a), BOT)),
    (b, N(N(b))),
    (N(b), A(N(b), TOP)),
    (A(a, b), N(O(N(a), N(b)))),
    (A(a, N(b)), N(O(N(a), b))),
    (A(N(a), b), N(O(a, N(b)))),
    (A(N(a), N(b)), N(O(a, b))),
    (O(a, b), N(A(N(a), N(b)))),
    (O(a, N(b)), N(A(N(a), b))),
    (O(N(a), b), N(A(a, N(b)))),
    (O(N(a), N(b)), N(A(a, b))),
    (O(A(a, b), A(N(a), N(b))), A(O(N(a), b), O(a, N(b)))),
    (O(A(a, N(b)), A(N(a), b)), A(O(a, b), O(N(a), N(b)))),
]
F2 = [p for p, _s in _F2]
F2S = [s for _p, s in _F2]


def _selfcheck_f2():
    seen = set()
    for p, s in _F2:
        mp, ms = mask(p, SIG2), mask(s, SIG2)
        assert mp == ms, (p, s)
        seen.add(mp)
    assert len(seen) == 16


_selfcheck_f2()

# C2: all conditionals (B|A) over F2 x F2, primary forms (256 syntactic, 81 semantic classes)
C2 = [(B, A_) for A_ in F2 for B in F2]
# secondary forms: same semantic conditional with both formulas in their secondary rendering
C2S = [(Bs, As) for As in F2S for Bs in F2S]
# queries mentioning an atom z outside the signature
QZ = [
    (z, TOP), (z, a), (a, z), (A(a, z), b), (O(b, z), a), (N(z), A(a, b)), (b, A(a, N(z))), (O(z, N(z)), a),
]
Q2 = C2 + QZ


def semclass_reps(conds, sig):
    """One representative (the first) per semantic class (ver, fal) of a list of conditionals."""
    seen = {}
    for cnd in conds:
        k = sem(cnd, sig)
        if k not in seen:
            seen[k] = cnd
    return list(seen.values())


def C2_sub():
    """Sub-alphabet of C2: one member per semantic class with antecedent != Bottom (72 classes would be all
    with satisfiable antecedent: 3^4 - ... ; computed, not assumed)."""
    out = []
    seen = set()
    for cnd in C2:
        v, f = sem(cnd, SIG2)
        if v | f == 0:
            continue
        if (v, f) not in seen:
            seen.add((v, f))
            out.append(cnd)
    return out


# ---------------------------------------------------------------------------------------------------------
# 3-atom literal conditionals
# ---------------------------------------------------------------------------------------------------------
LITS3 = [V(x) for x in SIG3] + [N(V(x)) for x in SIG3]


def _at(l):
    return l[1] if l[0] == "var" else l[1][1]


L3 = [(l, m) for l in LITS3 for m in LITS3 if _at(l) != _at(m)]
# two-literal conjunctive antecedents
L3CONJ = [
    (l, A(m, k))
    for l in LITS3
    for m, k in itertools.combinations(LITS3, 2)
    if len({_at(l), _at(m), _at(k)}) == 3
]
L3PLUS = L3 + L3CONJ[:24]
# two-literal conjunctive consequents (their non-falsification CNF has two clauses)
L3CC = [(A(l, m), k) for k in LITS3 for l, m in itertools.combinations(LITS3, 2) if len({_at(l), _at(m), _at(k)}) == 3]
L3MIX = L3 + L3CC
# three-literal conjunctive consequents (three clauses: a MaxSAT cost of 3 for ONE falsified conditional, more than two falsified
# single-clause conditionals cost - where clause cost and number of conditionals come apart)
L3C3 = L3 + [(A(x, A(y, z)), TOP) for x in (V("a"), N(V("a"))) for y in (V("b"), N(V("b"))) for z in (V("c"), N(V("c")))]
L3T = L3 + [(l, TOP) for l in LITS3]
assert len(L3) == 24 and len(L3T) == 30 and len(L3PLUS) == 48


def shape_of(cs):
    """Syntactic shape of a base: how many conditionals have a compound consequent / a compound antecedent (the structure
    quotient is semantic; the implementation may treat these shapes differently, so they are kept apart)."""
    lit = lambda f: f[0] == "var" or (f[0] == "not" and f[1][0] == "var") or f[0] in ("top", "bot")   # noqa: E731
    return (sum(1 for c_ in cs if not lit(c_[0])), sum(1 for c_ in cs if not lit(c_[1])))


def structural_scope(alphabet, sig, maxsize, want, seed=0, per_class=1, minsize=1):
    """Enumerate ALL subsets of size minsize..maxsize of `alphabet` in the reference model, group those whose
    classification is in `want` by conditional structure, and return
    (representatives, stats) where representatives is a list of (conds, cls) — per structure the
    (seed mod class-size)-th member (and the following per_class-1 ones)."""
    full = allmask(sig)
    nW = 1 << len(sig)
    semcache = {cnd: sem(cnd, sig) for cnd in alphabet}
    classes = {}
    stats = {"enumerated": 0, "by_class": {}}
    for size in range(minsize, maxsize + 1):
        for cs in itertools.combinations(alphabet, size):
            sems = [semcache[x] for x in cs]
            cls = ref.classify(sems, full)
            stats["enumerated"] += 1
            stats["by_class"][cls] = stats["by_class"].get(cls, 0) + 1
            if cls not in want:
                continue
            classes.setdefault((cls, ref.structure(sems, nW), shape_of(cs) if len(sig) >= 3 else None), []).append(cs)
    reps = []
    for (cls, _st, _sh), members in classes.items():
        for j in range(min(per_class, len(members))):
            reps.append((list(members[(seed + j) % len(members)]), cls))
    stats["structures"] = len(classes)
    stats["representatives"] = len(reps)
    return reps, stats


# ---------------------------------------------------------------------------------------------------------
# queries
# ---------------------------------------------------------------------------------------------------------
def type_groups(sems, nW):
    """world type -> mask of worlds of that type (ordered by first world)."""
    groups = {}
    for w in range(nW):
        t = tuple(1 if s[0] >> w & 1 else (2 if s[1] >> w & 1 else 0) for s in sems)
        groups[t] = groups.get(t, 0) | (1 << w)
    return list(groups.values())


def type_queries(sems, nW, maxv=2, maxf=2, extra=()):
    """All (V, F) with V, F disjoint unions of <= maxv / <= maxf world-type groups, F may not be empty unless
    listed in `extra`; plus the extra (V, F) pairs (e.g. vacuous ones)."""
    T = type_groups(sems, nW)
    vs = [sum(cmb) for k in range(0, maxv + 1) for cmb in itertools.combinations(T, k)]
    fs = [sum(cmb) for k in range(0, maxf + 1) for cmb in itertools.combinations(T, k)]
    out = []
    for v in vs:
        for f in fs:
            if v & f:
                continue
            out.append((v, f))
    for e in extra:
        if e not in out:
            out.append(e)
    return out


def world_queries(nW):
    """World-level queries (V, F): one verifying world with one or two falsifying worlds, and two verifying worlds with one
    falsifying world. Worlds of the same type may differ in how many CLAUSES of a conditional's CNF they violate, which a
    type-level query cannot separate."""
    out = []
    ws = range(nW)
    for v in ws:
        for k in (1, 2):
            for fs in itertools.combinations([w for w in ws if w != v], k):
                out.append((1 << v, sum(1 << w for w in fs)))
    for vs in itertools.combinations(ws, 2):
        for f in ws:
            if f not in vs:
                out.append((sum(1 << w for w in vs), 1 << f))
    return out


def all_semantic_queries(nW):
    """All 3^nW pairs of disjoint world sets."""
    out = []
    for code in itertools.product((0, 1, 2), repeat=nW):
        v = f = 0
        for w, x in enumerate(code):
            if x == 1:
                v |= 1 << w
            elif x == 2:
                f |= 1 << w
        out.append((v, f))
    return out


def render_query(sig, q, style="dnf"):
    """(V, F) -> conditional (B, A) with A = form(V|F), B = form(V)."""
    v, f = q
    if style == "dnf":
        return (dnf(sig, v), dnf(sig, v | f))
    if style == "cnf":
        return (cnf(sig, v), cnf(sig, v | f))
    raise ValueError(style)


def literal_queries3():
    """The 72 literal queries (l|l'), (l|l',l''), (l|l';l'') over three distinct atoms."""
    out = list(L3)
    for l in LITS3:
        others = [m for m in LITS3 if _at(m) != _at(l)]
        for m, k in itertools.combinations(others, 2):
            if _at(m) == _at(k):
                continue
            out.append((l, A(m, k)))
            out.append((l, O(m, k)))
    return out


# ---------------------------------------------------------------------------------------------------------
# rank tables
# ---------------------------------------------------------------------------------------------------------
def rank_tables(nW, maxrank):
    return itertools.product(range(maxrank + 1), repeat=nW)


# ---------------------------------------------------------------------------------------------------------
# a four-atom family: chains / bridges between atoms (relevance is transitive: (c|a) may follow from (b|a), (d|b), (c|a,d))
# ---------------------------------------------------------------------------------------------------------
SIG4 = ["a", "b", "c", "d"]
d = V("d")
A4 = [(b, a), (a, b), (c, b), (d, b), (d, c), (c, A(a, d)), (d, A(a, c)), (N(c), a), (N(d), c), (c, d), (N(b), d), (a, TOP)]


def literal_queries4():
    lits = [V(x) for x in SIG4] + [N(V(x)) for x in SIG4]
    out = [(l, m) for l in lits for m in lits if _at(l) != _at(m)]
    for l in lits[:4]:
        others = [m for m in lits if _at(m) != _at(l)]
        for m, k in itertools.combinations(others, 2):
            if _at(m) != _at(k):
                out.append((l, A(m, k)))
    return out
