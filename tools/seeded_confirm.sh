#!/bin/bash
# tools/seeded_confirm.sh <patch.diff> <demo.py> : confirm a property-breaking change in a scratch worktree (outside /repo and
# /verif): the patch applies, the demonstration passes on the unchanged tree and fails on the changed one, and the repository's
# own test suite still passes with the change. Prints one summary line; removes the worktree afterwards.
PATCH="$(readlink -f "$1")"; DEMO="$(readlink -f "$2")"
WT=$(mktemp -d /tmp/vf-confirm-XXXXXX)
git -C /repo worktree add -q --detach "$WT/tree" HEAD || exit 2
cd "$WT/tree" || exit 2
PYTHONPATH="$WT/tree" timeout 900 /venv/bin/python "$DEMO" > "$WT/demo_clean.txt" 2>&1; d0=$?
if ! git apply "$PATCH"; then echo "RESULT patch=NOAPPLY"; cd /; git -C /repo worktree remove --force "$WT/tree"; rm -rf "$WT"; exit 1; fi
PYTHONPATH="$WT/tree" timeout 900 /venv/bin/python "$DEMO" > "$WT/demo_patched.txt" 2>&1; d1=$?
PYTHONPATH="$WT/tree" /venv/bin/python -m pytest -q -p no:cacheprovider --timeout=900 unittests > "$WT/tests.txt" 2>&1
t=$(tail -1 "$WT/tests.txt")
imp=$(PYTHONPATH="$WT/tree" /venv/bin/python -c "import inference; print(inference.__file__)")
echo "RESULT patch=ok demo_clean_rc=$d0 demo_patched_rc=$d1 tests='$t' imported=$imp"
cd /; git -C /repo worktree remove --force "$WT/tree"; rm -rf "$WT"
