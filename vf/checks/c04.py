from .opcheck import OperatorCheck


class C04(OperatorCheck):
    id = "C04"
    b1_full_q2 = False
    cfgs = ("lex-rc2", "lex-z3")
    b3 = {
        "quick": [("L3", 4, 1, ("T21", 0)), ("L3MIX", 2, 1, ("T21", 0)), ("L3C3", 2, 1, ("W12", 0))],
        "thorough": [("L3", 4, 2, (2, 2)), ("L3T", 4, 1, ("T21", 0)), ("L3PLUS", 3, 1, ("T21", 0)), ("L3MIX", 3, 1, ("T21", 0)), ("L3C3", 2, 3, ("W12", 0)),
                     ("L3", 5, 1, ("T21", 0), 2)],
    }
    rule = ("E-in: named scopes of C01 (quick: B1 x 89 semantic-class queries instead of all 264 syntactic ones), both back-ends; oracle: comparison of the lexicographically least "
            "per-layer falsification count vectors by brute force over worlds. The type-level query family "
            "(|V|<=2,|F|<=1 and |V|=1,|F|=2 world types per base) reaches ties between several minimum-cardinality "
            "sets with differing continuations; counters report pairs where W differs from lex.")
    assumptions = ["reference model vf/ref.py", "inputs outside the named scopes are not covered by this check"]


CHECK = C04()
