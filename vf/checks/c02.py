from .opcheck import OperatorCheck


class C02(OperatorCheck):
    id = "C02"
    use_a4 = {"quick": True, "thorough": True}
    cfgs = ("z",)
    rule = ("E-in: same named scopes as C01 (B1 x Q2, B2 structure representatives x 89 queries, B3(4) structure "
            "representatives x type-level + literal queries); oracle: kz(AB) < kz(A!B) with kz by brute force over worlds. "
            "plus structure representatives of the <=4-subsets of a 12-element chain/bridge alphabet over FOUR atoms x 124 literal queries. distinct_nontrivial = distinct (base, query) pairs not decided by a vacuity rule with agreeing answers; "
            "counters report partition depths 1..3 reached.")
    assumptions = ["reference model vf/ref.py", "inputs outside the named scopes are not covered by this check"]


CHECK = C02()
