"""Prototype of the structural scope: conditional-structure representatives x type-level queries, real code vs reference."""
import sys, itertools, time, collections
from multiprocessing import Pool
import ref
from ref import V, N, A, O, TOP, BOT

SIG = ["a", "b", "c"]; W = list(ref.worlds(SIG)); ALL = 255
lits = [V(x) for x in SIG] + [N(V(x)) for x in SIG]
def at(l): return l[1] if l[0] == "var" else l[1][1]
L3 = [(l, m) for l in lits for m in lits if at(l) != at(m)]

def structure(sems):
    n = len(sems)
    vecs = {tuple(1 if s[0] >> w & 1 else (2 if s[1] >> w & 1 else 0) for s in sems) for w in range(8)}
    return min(tuple(sorted(tuple(v[i] for i in perm) for v in vecs)) for perm in itertools.permutations(range(n)))

def minterm(w):
    f = None
    for n_, v in w.items():
        l = V(n_) if v else N(V(n_))
        f = l if f is None else A(f, l)
    return f
def dnf(mask):
    f = None
    for i in ref.bits(mask):
        m = minterm(W[i]); f = m if f is None else O(f, m)
    return f if f is not None else BOT

def queries_for(sems):
    types = collections.defaultdict(int)
    for w in range(8):
        types[tuple(1 if s[0] >> w & 1 else (2 if s[1] >> w & 1 else 0) for s in sems)] |= 1 << w
    T = list(types.values())
    subs = [m for k in (1, 2) for c in itertools.combinations(T, k) for m in [sum(c)]]
    out = []
    for v in subs:
        for f in subs:
            if v & f: continue
            out.append((v, f))
    return out

CONFIGS = [("system-z", ""), ("system-w", "rc2"), ("system-w", "z3"), ("lex_inf", "rc2"), ("lex_inf", "z3"), ("p-entailment", "")]

def work(conds):
    import drv
    from inference.queries import Queries
    from inference.inference_manager import InferenceManager
    sems = [ref.sem(c, W) for c in conds]
    p = ref.partition(sems, ALL)
    qsem = queries_for(sems)
    qobjs = [drv.mkcond((dnf(v), dnf(v | f))) for v, f in qsem]
    refs = {"system-z": ref.ref_z, "system-w": ref.ref_w, "lex_inf": ref.ref_lex}
    bb = drv.mkbb(SIG, conds)
    diffs = []; nq = 0; tt = {}
    for system, pm in CONFIGS:
        t = time.time()
        res = []
        for i in range(0, len(qobjs), 100):
            chunk = {k + 1: q for k, q in enumerate(qobjs[i:i + 100])}
            try:
                df = InferenceManager(bb, system, pmaxsat_solver=pm or "rc2").inference(Queries(chunk))
                res += [bool(x) for x in df["result"]]
            except BaseException as e:
                res += [("EXC", type(e).__name__)] * len(chunk)
        tt[(system, pm)] = time.time() - t
        for (v, f), r in zip(qsem, res):
            nq += 1
            e = refs[system](p, sems, (v, f), ALL) if system in refs else ref.ref_p_strict(sems, ALL, (v, f))
            if r != e: diffs.append((system, pm, (v, f), r, e))
    return conds, len(qsem), diffs, tt

if __name__ == "__main__":
    maxsize = int(sys.argv[1]); seed = int(sys.argv[2]) if len(sys.argv) > 2 else 0
    t = time.time()
    classes = collections.OrderedDict()
    nb = 0
    for size in range(1, maxsize + 1):
        for cs in itertools.combinations(L3, size):
            sems = [ref.sem(c, W) for c in cs]
            if ref.partition(sems, ALL) is False: continue
            nb += 1
            classes.setdefault(structure(sems), []).append(cs)
    reps = [list(m[seed % len(m)]) for m in classes.values()]
    print("consistent bases", nb, "structures", len(reps), "enum time", round(time.time() - t, 1))
    t = time.time(); agg = collections.Counter(); ex = {}; nq = 0; tsum = collections.Counter()
    with Pool(16) as p:
        for conds, n, diffs, tt in p.imap_unordered(work, reps, chunksize=1):
            nq += n
            for k, v in tt.items(): tsum[k] += v
            for system, pm, q, r, e in diffs:
                key = (system, pm, str(r), e); agg[key] += 1
                ex.setdefault(key, ([f"({ref.txt(B)}|{ref.txt(A_)})" for B, A_ in conds], q))
    print("queries per config", nq, "wall", round(time.time() - t, 1), "cpu per config", {k: round(v, 1) for k, v in tsum.items()})
    for k, v in agg.items(): print(k, v, ex[k])
