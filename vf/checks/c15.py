"""C15 CNF encodings are faithful and correction-set enumeration is exact."""
import itertools

from .. import drive, forms, opsem, ref, scopes
from ..forms import BOT, TOP, A, N, O, V
from ..runner import Check, Result
from .c10 import gen_depth

ENGINES_QUICK = ["rc2", "rc2-g3", "rc2-cd19", "rc2-m22", "rc2-mcb"]


_USABLE = None


def usable_engines():
    """rc2-<engine> for every name in pysat.solvers.SolverNames that works here (run-time probe, cached)."""
    global _USABLE
    if _USABLE is None:
        import sys

        hook = sys.unraisablehook
        sys.unraisablehook = lambda *a: None   # bindings of missing engines complain in __del__
        try:
            _USABLE = _probe_engines()
            import gc

            gc.collect()
        finally:
            sys.unraisablehook = hook
    return list(_USABLE)


def _probe_engines():
    """An engine is usable iff a small battery of MaxSAT instances (one needing a core, an empty formula, one without hard
    clauses, one with unsatisfiable hard clauses) runs through RC2 with the expected optima - each engine probed in a forked
    child, because some bindings do not raise but crash the interpreter (pysat's maplesat segfaults on an empty formula)."""
    import os

    from pysat.solvers import SolverNames

    out = []
    for attr, names in vars(SolverNames).items():
        if attr.startswith("_"):
            continue
        name = names[0]
        pid = os.fork()
        if pid == 0:
            code = 1
            try:
                code = 0 if _battery(name) else 1
            except BaseException:  # noqa: BLE001  engines that are not installed / not implemented
                code = 1
            os._exit(code)
        _pid, status = os.waitpid(pid, 0)
        if os.WIFEXITED(status) and os.WEXITSTATUS(status) == 0:
            out.append("rc2-" + name)
    return out


def _battery(name):
    from pysat.examples.rc2 import RC2
    from pysat.formula import WCNF

    def opt(hard, soft):
        w = WCNF()
        for c in hard:
            w.append(c)
        for c in soft:
            w.append(c, weight=1)
        with RC2(w, solver=name) as r:
            m = r.compute()
            return None if m is None else r.cost
    return (opt([[1, 2]], [[-1], [-2]]) == 1 and opt([], []) == 0 and opt([], [[1], [-1]]) == 1
            and opt([[1], [-1]], [[2]]) is None and opt([[1]], []) == 0)


# ---------------------------------------------------------------------------------------------------------
# a tiny DPLL (the oracle must not use a SAT library)
# ---------------------------------------------------------------------------------------------------------
def dpll(clauses, assign):
    """clauses: list of lists of ints; assign: dict var->bool (partial). True iff satisfiable."""
    assign = dict(assign)
    while True:
        unit = None
        new = []
        for cl in clauses:
            sat = False
            rest = []
            for l in cl:
                v = assign.get(abs(l))
                if v is None:
                    rest.append(l)
                elif v == (l > 0):
                    sat = True
                    break
            if sat:
                continue
            if not rest:
                return False
            if len(rest) == 1 and unit is None:
                unit = rest[0]
            new.append(rest)
        clauses = new
        if unit is None:
            break
        assign[abs(unit)] = unit > 0
    if not clauses:
        return True
    l = clauses[0][0]
    for val in (l > 0, not (l > 0)):
        a2 = dict(assign)
        a2[abs(l)] = val
        if dpll(clauses, a2):
            return True
    return False


def new_state(bb, pm="rc2"):
    from inference.inference_manager import create_epistemic_state
    from inference.tseitin_transformation import TseitinTransformation

    es = create_epistemic_state(bb, "system-w", "z3", pm, False)
    tt = TseitinTransformation(es)
    return es, tt


def atom_ids(es, sig):
    import z3

    return {x: es["pool"].id(z3.Bool(x)) for x in sig}


def check_faithful(res, prop, sig, conds, via_query, reuse_state=None):
    """All three encodings of every conditional x all complete assignments."""
    bb = drive.mkbb(sig, conds)
    es, tt = new_state(bb)
    if reuse_state is not None:
        # low-level API: the same epistemic state object is handed a different base (same keys) and translated again
        es, tt = reuse_state
        es["belief_base"] = bb
    try:
        if via_query:
            # the queries of one group are translated one after the other on ONE epistemic state and all carry the same
            # free-form text label: the clauses must depend on the formulas, not on the label or on earlier queries
            enc = {}
            for k, c in bb.conditionals.items():
                c.textRepresentation = "(q|label)"
                v, f = tt.query_to_cnf(c)
                enc[k] = {"v": v, "f": f}
        else:
            tt.belief_base_to_cnf(True, True, True)
            enc = {k: {"v": es["v_cnf_dict"][k], "f": es["f_cnf_dict"][k], "nf": es["nf_cnf_dict"][k]} for k in bb.conditionals}
    except Exception as e:  # noqa: BLE001
        res.evals += 1
        res.violation(prop, "cnf-exception", {"sig": sig, "conds": [forms.ctxt(c) for c in conds], "conds_f": conds,
                      "config": "query_to_cnf" if via_query else "belief_base_to_cnf"}, "clauses", drive.exc_obs(e))
        return
    ids = atom_ids(es, sig)
    full = forms.allmask(sig)
    for (k, e), cnd in zip(enc.items(), conds):
        ver, fal = forms.sem(cnd, sig)
        want = {"v": ver, "f": fal, "nf": full & ~fal}
        for which, clauses in e.items():
            bad = None
            for w in range(1 << len(sig)):
                asg = forms.world_assignment(sig, w)
                sat = dpll(clauses, {ids[x]: val for x, val in asg.items()})
                res.evals += 1
                if sat != bool(want[which] >> w & 1):
                    bad = (w, sat)
                    break
            if bad is not None:
                res.violation(prop, "cnf-unfaithful", {"sig": sig, "conds": [forms.ctxt(cnd)], "conds_f": [cnd], "which": which,
                              "config": "query_to_cnf" if via_query else "belief_base_to_cnf"},
                              {"world": forms.world_str(sig, bad[0]), "satisfiable": not bad[1]}, {"clauses": clauses, "satisfiable": bad[1]})
            else:
                res.nontrivial.add(hash((cnd, which, via_query)))
        res.outcomes.add((len(e.get("v", [])), len(e.get("f", [])), len(e.get("nf", []))))
    return es, tt


def minimal_sets(family):
    fam = set(family)
    return sorted(sorted(s) for s in fam if not any(t < s for t in fam))


def mcs_cases(rb, keys, queries):
    """Semantic descriptions of the WCNFs the operators build: (label, hard spec, soft keys, ignore keys).
    hard spec: list of ('v'|'f'|'nf', key or 'q') conjuncts."""
    part = rb.part if rb.part is not None else (rb.fin + [rb.inf] if rb.fin is not None else None)
    n = len(keys)
    allk = list(keys)
    for qi, q in enumerate(queries):
        for side in ("v", "f"):
            if part:
                for li in range(len(part)):
                    layer = [keys[i] for i in part[li]]
                    if not layer:
                        continue
                    yield ("W-layer", qi, [(side, "q")], layer, [k for k in allk if k not in layer])
                # ties fixed in the top layer, soft = next lower layer
                if len(part) >= 2 and part[-1]:
                    top = [keys[i] for i in part[-1]]
                    low = [keys[i] for i in part[-2]]
                    for r in range(len(top) + 1):
                        for xi in itertools.combinations(top, r):
                            hard = [(side, "q")] + [("f", k) for k in xi] + [("nf", k) for k in top if k not in xi]
                            yield ("W-tie", qi, hard, low, [k for k in allk if k not in low])
            yield ("C-query", qi, [(side, "q")], allk, [])
    for k in allk:
        for side in ("v", "f"):
            yield ("C-base", None, [(side, k)], [j for j in allk if j != k], [k])


def check_mcs(res, prop, sig, conds, queries_f, engines, label):
    from pysat.formula import WCNF

    from inference.optimizer import create_optimizer

    full = forms.allmask(sig)
    sems = [forms.sem(c, sig) for c in conds]
    rb = ref.RefBase(sems, full)
    keys = list(range(1, len(conds) + 1))
    semk = dict(zip(keys, sems))
    qsems = [forms.sem(q, sig) for q in queries_f]
    for pm in engines:
        bb = drive.mkbb(sig, conds)
        es, tt = new_state(bb, pm)
        tt.belief_base_to_cnf(True, True, True)
        qenc = [tt.query_to_cnf(drive.mkcond(q)) for q in queries_f]
        for kind, qi, hard, soft, ignore in mcs_cases(rb, keys, qsems):
            wcnf = WCNF()
            hm = full
            for which, k in hard:
                if k == "q":
                    cl = qenc[qi][0 if which == "v" else 1]
                    m = qsems[qi][0] if which == "v" else qsems[qi][1]
                else:
                    cl = es[{"v": "v_cnf_dict", "f": "f_cnf_dict", "nf": "nf_cnf_dict"}[which]][k]
                    m = semk[k][0] if which == "v" else (semk[k][1] if which == "f" else full & ~semk[k][1])
                hm &= m
                for c_ in cl:
                    wcnf.append(c_)
            for k in soft:
                for c_ in es["nf_cnf_dict"][k]:
                    wcnf.append(c_, weight=1)
            exp = minimal_sets(frozenset(k for k in soft if semk[k][1] >> w & 1) for w in forms.bits(hm))
            try:
                got = create_optimizer(es).minimal_correction_subsets(wcnf, ignore=list(ignore))
                gotn = sorted(sorted(x) for x in got)
            except Exception as e:  # noqa: BLE001
                gotn = drive.exc_obs(e)
            res.evals += 1
            res.outcomes.add(len(exp))
            res.counters["mcs_%s" % kind] += 1
            if hm == 0:
                res.counters["mcs_hard_unsatisfiable"] += 1
            if len(exp) >= 2:
                res.counters["mcs_several_minimal_sets"] += 1
            if gotn != exp:
                res.violation(prop, "mcs", {"sig": sig, "conds": [forms.ctxt(c) for c in conds], "conds_f": conds,
                              "queries_f": queries_f, "config": pm, "wcnf": kind, "hard": hard, "soft": soft, "ignore": ignore,
                              "query": forms.ctxt(queries_f[qi]) if qi is not None else None, "qi": qi, "scope": label}, exp, gotn)
            elif hm and exp != [[]]:
                res.nontrivial.add(hash((tuple(conds), pm, kind, qi, tuple(map(tuple, hard)), tuple(soft))))


class C15(Check):
    id = "C15"
    level = "exploration"
    rule = ("E-in. (a) faithfulness: all 512 conditionals over the 16 truth functions of {a,b} in both syntactic forms, all "
            "conditionals whose antecedent/consequent range over a slice of all depth-2 formulas over {a,b,Top,Bottom}, and "
            "DNF/CNF renderings of truth functions over {a,b,c} (thorough: all 256 x 2), through belief_base_to_cnf(v,f,nf) and "
            "query_to_cnf, x ALL complete assignments of the atoms; satisfiability of clauses + assignment decided by a "
            "hand-written DPLL over the auxiliary variables. (b) exactness: minimal_correction_subsets on every WCNF the "
            "operators build (query side x every layer as soft; every fixed tie of the top layer with the next layer as soft; "
            "c-inference base and query compilations; unsatisfiable hard parts) for the structure representatives of all "
            "pairs over {a,b} and of <=3-subsets of literal conditionals over {a,b,c}, x the usable rc2 SAT engines "
            "(quick 5, thorough all); oracle: inclusion-minimal members of {falsified soft set of w | w |= hard}, each once. "
            "distinct_nontrivial = distinct (conditional, encoding) pairs plus distinct WCNFs with satisfiable hard part and a "
            "non-empty correction set.")
    assumptions = ["hard parts are described semantically, which presupposes part (a) for the CNFs involved",
                   "engines whose pysat binding is missing or raises are probed at run time and listed as unusable"]

    def tasks(self):
        quick = self.tier == "quick"
        out = []
        conds2 = scopes.C2 + scopes.C2S
        for i in range(0, len(conds2), 32):
            out.append(("faith", scopes.SIG2, conds2[i:i + 32]))
        d2 = gen_depth([V("a"), V("b"), TOP, BOT], 2)
        sl = d2[::13] if quick else d2[::3]
        pairs = [(B, A_) for B in sl for A_ in sl[::4]]
        for i in range(0, len(pairs), 40):
            out.append(("faith", scopes.SIG2, pairs[i:i + 40]))
        tf = range(0, 256, 5) if quick else range(256)
        c3 = []
        for m in tf:
            for m2 in (m, (m * 7 + 3) % 256):
                c3.append((forms.dnf(scopes.SIG3, m), forms.cnf(scopes.SIG3, m2)))
                c3.append((forms.cnf(scopes.SIG3, m2), forms.dnf(scopes.SIG3, m)))
        for i in range(0, len(c3), 16):
            out.append(("faith", scopes.SIG3, c3[i:i + 16]))
        self.n_faith = len(conds2) + len(pairs) + len(c3)
        self.engines = [e for e in (ENGINES_QUICK if quick else ["rc2"] + usable_engines()) if e == "rc2" or e in usable_engines()]
        alpha = scopes.C2_sub()
        reps2, _ = scopes.structural_scope(alpha, scopes.SIG2, 2, ("strong", "weak-finite"), self.seed, 1, minsize=2)
        q2 = scopes.semclass_reps(scopes.C2, scopes.SIG2)
        q2 = q2[::2] if quick else q2
        for conds, _cls in reps2:
            out.append(("mcs", scopes.SIG2, conds, q2, self.engines, "B2"))
        reps3, _ = scopes.structural_scope(scopes.L3, scopes.SIG3, 3, ("strong", "weak-finite"), self.seed, 1)
        q3 = scopes.literal_queries3()[::2 if quick else 1] + [(BOT, V("a")), (V("a"), A(V("b"), N(V("b"))))]
        for conds, _cls in reps3:
            out.append(("mcs", scopes.SIG3, conds, q3, self.engines, "B3(3)"))
        self.n_mcs_bases = len(reps2) + len(reps3)
        return out

    def run(self, task):
        res = Result()
        if task[0] == "faith":
            _k, sig, conds = task
            state = None
            for i in range(0, len(conds), 4):
                st = check_faithful(res, self.id, sig, conds[i:i + 4], False, reuse_state=state if (i // 4) % 2 else None)
                state = st if st else None
                check_faithful(res, self.id, sig, conds[i:i + 4], True)
            res.samples.append({"conditionals": [forms.ctxt(c) for c in conds[:2]], "assignments_each": 1 << len(sig)})
        else:
            _k, sig, conds, qs, engines, label = task
            check_mcs(res, self.id, sig, conds, qs, engines, label)
            res.samples.append({"base": [forms.ctxt(c) for c in conds], "engines": engines, "wcnfs": res.evals})
        res.digest = (res.evals, len(res.violations), sorted(res.counters.items()))
        return res

    def coverage_extra(self, agg):
        return {"engines": self.engines, "usable_engines_probe": usable_engines(), "conditionals_encoded": self.n_faith,
                "mcs_bases": self.n_mcs_bases}

    def replay(self, rec):
        c = rec["case"]
        r = Result()
        conds = [opsem.tup(x) for x in c["conds_f"]]
        if rec["kind"].startswith("cnf"):
            check_faithful(r, self.id, c["sig"], conds, c["config"] == "query_to_cnf")
        else:
            check_mcs(r, self.id, c["sig"], conds, [opsem.tup(q) for q in c["queries_f"]], [c["config"]], c.get("scope", ""))
        return {"observed": [v["observed"] for v in r.violations[:3]], "violates": bool(r.violations)}


CHECK = C15()
