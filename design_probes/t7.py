import warnings, logging, traceback
warnings.filterwarnings("ignore"); logging.disable(logging.CRITICAL)
import drv, ref
from ref import *
from inference.queries import Queries
from inference.inference_manager import InferenceManager
a,b,c = V("a"),V("b"),V("c")
SIG=["a","b","c"]
conds=[(a,b),(a,N(b)),(c,N(a)),(N(a),c)]
qs=[(c,a),(a,c),(N(c),A(a,b)),(b,O(a,c)),(a,TOP)]
def run(keys, system, pm, qkeys=None, weakly=False, twice=False, multi=False):
    bb=drv.mkbb(SIG,conds,keys)
    qd={k:drv.mkcond(q) for k,q in zip(qkeys or range(1,len(qs)+1), qs)}
    try:
        m=InferenceManager(bb,system,pmaxsat_solver=pm,weakly=weakly)
        df=m.inference(Queries(qd), multi_inference=multi)
        if twice: df=m.inference(Queries(qd), multi_inference=multi)
        return list(df['result']), list(df['index'])
    except BaseException as e:
        return ("EXC",type(e).__name__,str(e)[:80])
for system,pm in drv.CONFIGS:
    base=run([1,2,3,4],system,pm)
    for keys in ([0,1,2,3],[10,20,30,40],[4,3,2,1],[2,1,4,3],[-1,5,7,0]):
        r=run(keys,system,pm)
        print(system,pm,keys,"OK" if r==base else ("DIFF",r,base))
    print(system,pm,"twice", run([1,2,3,4],system,pm,twice=True)==base or run([1,2,3,4],system,pm,twice=True))
    print(system,pm,"qkeys", run([1,2,3,4],system,pm,qkeys=[0,7,3,3+10,-2]))
