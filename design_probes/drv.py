import warnings, logging
warnings.filterwarnings("ignore")
logging.disable(logging.CRITICAL)
import ref
from inference.belief_base import BeliefBase
from inference.conditional import Conditional
from inference.queries import Queries
from inference.inference_manager import InferenceManager, create_epistemic_state, create_inference_instance

def mkcond(c):
    B, A = c
    return Conditional(ref.to_pysmt(B), ref.to_pysmt(A), f"({ref.txt(B)}|{ref.txt(A)})")

def mkbb(sig, conds, keys=None, name="kb"):
    if keys is None: keys = range(1, len(conds) + 1)
    return BeliefBase(list(sig), {k: mkcond(c) for k, c in zip(keys, conds)}, name)

CONFIGS = [("p-entailment", ""), ("system-z", ""), ("system-w", "rc2"), ("system-w", "z3"),
           ("lex_inf", "rc2"), ("lex_inf", "z3"), ("c-inference", "rc2")]

def run_low(bb, system, pm, weakly, queries):
    """returns list of results or exception repr; low-level seam w/o pandas"""
    es = create_epistemic_state(bb, system, "z3", pm, weakly)
    inst = create_inference_instance(es)
    try:
        inst.preprocess_belief_base(0)
    except BaseException as e:
        return ("PRE_EXC", type(e).__name__, str(e)[:80])
    out = []
    for q in queries:
        try:
            out.append(bool(inst.general_inference(q)))
        except BaseException as e:
            out.append(("EXC", type(e).__name__, str(e)[:60]))
    return out
