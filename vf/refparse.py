"""Independent recursive-descent recogniser / evaluator for the documented .cl syntax (formulas, conditional lists,
belief-base files).  Generous on layout (newlines are ignored), strict on token structure and on end of input."""
import re

from .forms import BOT, TOP, A, N, O, V

TOKEN_RE = re.compile(r"""
    (?P<ws>[ \t]+)
  | (?P<nl>\r\n|\n|\r)
  | (?P<lc>//[^\r\n]*)
  | (?P<bc>/\*.*?\*/)
  | (?P<id>[A-Za-z][A-Za-z0-9_\-]*)
  | (?P<p>[(){}|,;!])
""", re.X | re.S)


class Reject(Exception):
    pass


def tokenize(s):
    pos = 0
    out = []
    while pos < len(s):
        m = TOKEN_RE.match(s, pos)
        if not m:
            raise Reject("illegal character %r at %d" % (s[pos], pos))
        pos = m.end()
        k = m.lastgroup
        if k in ("ws", "nl", "lc", "bc"):
            continue
        out.append(m.group())
    return out


class P:
    def __init__(self, toks):
        self.t = toks
        self.i = 0

    def peek(self):
        return self.t[self.i] if self.i < len(self.t) else None

    def eat(self, x=None):
        tok = self.peek()
        if tok is None or (x is not None and tok != x):
            raise Reject("expected %r, found %r at token %d" % (x, tok, self.i))
        self.i += 1
        return tok

    def end(self):
        if self.i != len(self.t):
            raise Reject("unconsumed input from token %d: %r" % (self.i, self.t[self.i:self.i + 3]))

    # precedence: ! > , > ;
    def formula(self):
        f = self.conj()
        while self.peek() == ";":
            self.eat()
            f = O(f, self.conj())
        return f

    def conj(self):
        f = self.unary()
        while self.peek() == ",":
            self.eat()
            f = A(f, self.unary())
        return f

    def unary(self):
        tok = self.peek()
        if tok == "!":
            self.eat()
            return N(self.unary())
        if tok == "(":
            self.eat()
            f = self.formula()
            self.eat(")")
            return f
        if tok is not None and is_id(tok):
            self.eat()
            if tok == "Top":
                return TOP
            if tok == "Bottom":
                return BOT
            return V(tok)
        raise Reject("formula expected, found %r" % (tok,))

    def cond(self):
        self.eat("(")
        b = self.formula_in_cond()
        self.eat("|")
        a = self.formula()
        self.eat(")")
        return (b, a)

    def formula_in_cond(self):
        return self.formula()

    def condlist(self, closer):
        out = []
        if self.peek() == closer:
            return out
        out.append(self.cond())
        while self.peek() == ",":
            self.eat()
            out.append(self.cond())
        return out


KEYWORDS = ("signature", "conditionals")


def is_id(tok):
    return bool(re.fullmatch(r"[A-Za-z][A-Za-z0-9_\-]*", tok)) and tok not in KEYWORDS


def parse_formula(s):
    p = P(tokenize(s))
    f = p.formula()
    p.end()
    return f


def parse_condlist(s):
    p = P(tokenize(s))
    out = p.condlist(None)
    p.end()
    if not out:
        raise Reject("empty conditional list")
    return out


def parse_file(s):
    """-> (signature, [(name, [conds])...])"""
    p = P(tokenize(s))
    p.eat("signature")
    sig = []
    tok = p.eat()
    if not is_id(tok):
        raise Reject("identifier expected in signature")
    sig.append(tok)
    while p.peek() == ",":
        p.eat()
        tok = p.eat()
        if not is_id(tok):
            raise Reject("identifier expected in signature")
        sig.append(tok)
    blocks = []
    while p.peek() == "conditionals":
        p.eat()
        name = p.eat()
        if not is_id(name):
            raise Reject("block name expected")
        p.eat("{")
        conds = p.condlist("}")
        p.eat("}")
        blocks.append((name, conds))
    if not blocks:
        raise Reject("no conditionals block")
    p.end()
    return sig, blocks
