"""Common machinery: worker pool, deterministic aggregation, known findings, violation artefacts, evidence."""
import collections
import hashlib
import json
import multiprocessing as mp
import os
import subprocess
import sys
import time
import traceback

VERIF = os.path.dirname(os.path.dirname(os.path.abspath(__file__)))
EVIDENCE_DIR = os.environ.get("VERIF_EVIDENCE_DIR") or os.path.join(VERIF, "evidence")
REPLAY_DIR = os.environ.get("VERIF_REPLAY_DIR") or os.path.join(VERIF, "replays")
FINDINGS_FILE = os.path.join(VERIF, "known_findings.json")
MAX_REPLAY_FILES = 12
NPROC = int(os.environ.get("VERIF_NPROC", "0")) or min(16, os.cpu_count() or 1)


class HarnessError(Exception):
    pass


def seed():
    try:
        return int(os.environ.get("VERIF_SEED", "0"))
    except ValueError:
        return 0


# ---------------------------------------------------------------------------------------------------------
# task results
# ---------------------------------------------------------------------------------------------------------
class Result:
    """What one task (one unit of exploration, run in a worker) reports."""

    def __init__(self):
        self.evals = 0
        self.nontrivial = set()   # hashable keys of distinct non-trivial cases
        self.counters = collections.Counter()
        self.violations = []      # list of dict records
        self.samples = []         # a few explored cases written out
        self.outcomes = set()     # distinct observed outcomes
        self.digest = None        # anything comparable, for the determinism audit
        self.extra = {}           # check-specific payload merged by Check.merge

    def violation(self, prop, kind, case, expected, observed, detail=None):
        rec = {"property": prop, "kind": kind, "case": case, "expected": expected, "observed": observed}
        if detail is not None:
            rec["detail"] = detail
        self.violations.append(rec)


def _jsonable(x):
    if isinstance(x, (str, int, float, bool)) or x is None:
        return x
    if isinstance(x, dict):
        return {str(k): _jsonable(v) for k, v in x.items()}
    if isinstance(x, (list, tuple, set, frozenset)):
        return [_jsonable(v) for v in (sorted(x, key=repr) if isinstance(x, (set, frozenset)) else x)]
    return repr(x)


# ---------------------------------------------------------------------------------------------------------
# worker side
# ---------------------------------------------------------------------------------------------------------
_CHECK = None


def _init_worker(modname, tier, sd):
    global _CHECK
    import importlib

    os.environ["VERIF_IN_WORKER"] = "1"
    mod = importlib.import_module(modname)
    _CHECK = mod.CHECK
    _CHECK.tier = tier
    _CHECK.seed = sd
    if hasattr(_CHECK, "init_worker"):
        _CHECK.init_worker()


def _run_task(arg):
    idx, task = arg
    try:
        r = _CHECK.run(task)
        return idx, r, None
    except BaseException as e:  # noqa: BLE001
        if isinstance(e, KeyboardInterrupt):
            raise
        return idx, None, "task %r: %s\n%s" % (idx, e, traceback.format_exc())


# ---------------------------------------------------------------------------------------------------------
# known findings
# ---------------------------------------------------------------------------------------------------------
def load_findings():
    if not os.path.exists(FINDINGS_FILE):
        return []
    with open(FINDINGS_FILE) as fh:
        data = json.load(fh)
    return [f for f in data.get("findings", []) if f.get("status") == "finding"]


def match_finding(rec, findings):
    """A finding matches a violation record when property and kind agree and every key of finding['where'] equals
    (or, for list values, contains) the corresponding entry of the record's flattened case."""
    for f in findings:
        if f["property"] != rec["property"]:
            continue
        if f.get("kind") and f["kind"] != rec["kind"]:
            continue
        flat = dict(rec.get("case", {}))
        flat["expected"] = rec.get("expected")
        flat["observed"] = rec.get("observed")
        flat.update(rec.get("detail", {}) or {})
        ok = True
        for k, v in f.get("where", {}).items():
            x = flat.get(k)
            if isinstance(v, list):
                if x not in v and _jsonable(x) not in v:
                    ok = False
                    break
            elif x != v and _jsonable(x) != v:
                ok = False
                break
        if ok:
            return f
    return None


# ---------------------------------------------------------------------------------------------------------
# the run
# ---------------------------------------------------------------------------------------------------------
class Check:
    id = "C00"
    level = "exploration"
    exhaustive = True
    rule = ""
    assumptions = []
    audit_tasks = 6

    tier = "quick"
    seed = 0

    def tasks(self):
        raise NotImplementedError

    def run(self, task):
        raise NotImplementedError

    def coverage_extra(self, agg):
        return {}

    def replay(self, rec):
        raise NotImplementedError


def execute(check, tier):
    t0 = time.time()
    sd = seed()
    check.tier = tier
    check.seed = sd
    import inference

    print("[%s] tier=%s seed=%d repo=%s nproc=%d" % (
        check.id, tier, sd, os.path.dirname(os.path.abspath(inference.__file__)), NPROC), flush=True)
    tasks = list(check.tasks())
    print("[%s] %d tasks" % (check.id, len(tasks)), flush=True)
    agg = Result()
    agg.task_count = len(tasks)
    results = [None] * len(tasks)
    modname = type(check).__module__
    ctx = mp.get_context("fork")
    errors = []
    n_audit = min(check.audit_tasks, len(tasks))
    step = max(1, len(tasks) // max(1, n_audit))
    audit_idx = list(range(0, len(tasks), step))[:n_audit]
    with ctx.Pool(NPROC, initializer=_init_worker, initargs=(modname, tier, sd), maxtasksperchild=getattr(check, "maxtasksperchild", None)) as pool:
        done = 0
        last = time.time()
        it = pool.imap_unordered(_run_task, list(enumerate(tasks)), chunksize=getattr(check, "chunksize", 1))
        stall = int(os.environ.get("VERIF_STALL", "0")) or getattr(check, "stall_timeout", 1500)
        pids0 = {p.pid for p in pool._pool}
        waited = 0
        while True:
            try:
                idx, r, err = it.next(timeout=20)
                waited = 0
            except StopIteration:
                break
            except mp.TimeoutError:
                waited += 20
                dead = [p.pid for p in pool._pool if p.pid not in pids0]
                if dead and getattr(check, "maxtasksperchild", None) is None:
                    # the pool replaced a worker: one died (a crash of the interpreter inside the code under test, e.g. a
                    # segfault in a solver binding); its task will never come back
                    print("HARNESS-ERROR property=%s a worker process died (%d/%d tasks done); unfinished tasks follow" % (
                        check.id, done, len(tasks)))
                    for i in [i for i in range(len(tasks)) if results[i] is None][:20]:
                        print("    unfinished task %d: %s" % (i, repr(tasks[i])[:300]))
                    pool.terminate()
                    return 2
                if waited < stall:
                    continue
                # no task finished for `stall` seconds: something inside the code under test does not return
                print("HARNESS-ERROR property=%s no task completed within %d s (%d/%d done): the code under test hangs" % (
                    check.id, stall, done, len(tasks)))
                pending = [i for i in range(len(tasks)) if results[i] is None][:16]
                for i in pending:
                    print("    unfinished task %d: %s" % (i, repr(tasks[i])[:400]))
                pool.terminate()
                return 2
            done += 1
            if err:
                errors.append(err)
            else:
                results[idx] = r
            if time.time() - last > 30:
                last = time.time()
                print("[%s] %d/%d tasks, %.0fs" % (check.id, done, len(tasks), time.time() - t0), flush=True)
        # determinism audit: re-run a fixed slice in (very likely) other workers and compare digests
        audit = []
        if not errors:
            for idx, r, err in pool.imap_unordered(_run_task, [(i, tasks[i]) for i in audit_idx]):
                if err:
                    errors.append(err)
                else:
                    audit.append((idx, r))
    # tasks that must run in the (non-daemonic) parent process, e.g. calls into the real multiprocessing module
    if not errors and hasattr(check, "parent_tasks"):
        for t in check.parent_tasks():
            try:
                results.append(check.run(t))
            except Exception as e:  # noqa: BLE001
                errors.append("parent task %r: %s\n%s" % (t, e, traceback.format_exc()))
    if errors:
        print("HARNESS-ERROR property=%s %d task(s) crashed inside the harness:\n%s" % (check.id, len(errors), errors[0]))
        return 2
    nondet = None
    for idx, r in audit:
        if r.digest != results[idx].digest:
            nondet = "task %d: %s vs %s" % (idx, repr(results[idx].digest)[:300], repr(r.digest)[:300])
            break
    for r in results:
        agg.evals += r.evals
        agg.nontrivial |= r.nontrivial
        agg.counters.update(r.counters)
        agg.violations += r.violations
        agg.outcomes |= r.outcomes
        if len(agg.samples) < 6 and r.samples:
            agg.samples.append(r.samples[0])
        if hasattr(check, "merge"):
            check.merge(agg, r)
    rc = finish(check, agg, tier, sd, t0, audited=len(audit))
    if nondet:
        # The same task gave different observations in two worker processes. If violations were found they are reported
        # (an implementation whose answers depend on process history is exactly what several properties forbid); if not,
        # nothing this run observed can be trusted: harness error.
        print("[%s] determinism audit: observations differ between two executions of the same task (%s)" % (check.id, nondet))
        if rc == 0:
            print("HARNESS-ERROR property=%s nondeterministic observation without any violation: %s" % (check.id, nondet))
            return 2
    return rc


def finish(check, agg, tier, sd, t0, audited=0):
    findings = load_findings()
    known = collections.OrderedDict()
    unknown = []
    for rec in agg.violations:
        f = match_finding(rec, findings)
        if f is not None:
            known.setdefault(f["id"], [f, 0, rec])
            known[f["id"]][1] += 1
        else:
            unknown.append(rec)
    os.makedirs(REPLAY_DIR, exist_ok=True)
    for old in os.listdir(REPLAY_DIR):   # replay files of earlier runs of this check are stale
        if old.startswith(check.id + "-") and old.endswith(".json"):
            os.remove(os.path.join(REPLAY_DIR, old))
    lines = []
    written = {}
    for rec in unknown:
        sig = (rec["kind"], json.dumps(_jsonable(rec.get("case", {}).get("config", "")), sort_keys=True))
        if written.get(sig, 0) >= 3 or len(lines) >= MAX_REPLAY_FILES:
            continue
        written[sig] = written.get(sig, 0) + 1
        blob = json.dumps(_jsonable(rec), sort_keys=True, indent=1)
        h = hashlib.sha1(blob.encode()).hexdigest()[:12]
        path = os.path.join(REPLAY_DIR, "%s-%s.json" % (check.id, h))
        with open(path, "w") as fh:
            fh.write(blob + "\n")
        lines.append("VIOLATION property=%s replay=%s" % (check.id, path))
    cov = {
        "evaluations": int(agg.evals),
        "distinct_nontrivial": int(len(agg.nontrivial)),
        "rule": check.rule,
        "samples": _jsonable(agg.samples) or [],
        "exhaustive": bool(check.exhaustive),
        "tasks": int(getattr(agg, "task_count", 0)),
        "distinct_outcomes": int(len(agg.outcomes)),
        "counters": {k: int(v) for k, v in sorted(agg.counters.items())},
        "determinism_audit_tasks": int(audited),
        "violations_total": len(agg.violations),
        "violations_known_findings": {k: v[1] for k, v in known.items()},
        "violations_unlisted": len(unknown),
        "violations_by_kind_and_config": _by_kind(agg.violations),
    }
    cov.update(_jsonable(check.coverage_extra(agg)))
    ev = {
        "property_id": check.id,
        "tier": tier,
        "seed": sd,
        "level": check.level,
        "coverage": cov,
        "assumptions": list(check.assumptions),
        "wall_s": round(time.time() - t0, 2),
        "violations": len(unknown),
    }
    problems = validate_evidence(ev)
    os.makedirs(EVIDENCE_DIR, exist_ok=True)
    with open(os.path.join(EVIDENCE_DIR, check.id + ".json"), "w") as fh:
        json.dump(ev, fh, indent=1, sort_keys=True)
        fh.write("\n")
    print("[%s] evaluations=%d distinct_nontrivial=%d outcomes=%d violations=%d (known=%d) wall=%.1fs" % (
        check.id, cov["evaluations"], cov["distinct_nontrivial"], cov["distinct_outcomes"], len(agg.violations),
        len(agg.violations) - len(unknown), ev["wall_s"]))
    for k, v in sorted(agg.counters.items()):
        print("    %-44s %d" % (k, v))
    for fid, (f, n, rec) in known.items():
        print("KNOWN-FINDING: property=%s %s [%s, %d case(s) this run]" % (check.id, f["what"], fid, n))
    if problems:
        print("HARNESS-ERROR property=%s evidence not valid: %s" % (check.id, "; ".join(problems)))
        return 2
    if lines:
        for ln in lines:
            print(ln)
        print("[%s] %d unlisted violation(s); first: %s" % (check.id, len(unknown), json.dumps(_jsonable(unknown[0]))[:600]))
        return 1
    return 0


def _by_kind(violations):
    c = collections.Counter()
    for rec in violations:
        case = rec.get("case", {})
        c["%s|%s|%s" % (rec["kind"], case.get("config", ""), case.get("tname", case.get("scope", "")))] += 1
    return dict(sorted(c.items()))


def validate_evidence(ev):
    """Hand-written check of the parts of EVIDENCE.schema.json that matter (jsonschema is not in /venv; the
    `check` wrapper validates with python3-vt's jsonschema as well when it is available)."""
    p = []
    cov = ev["coverage"]
    if ev["level"] in ("exploration", "fault_enumeration"):
        if cov.get("evaluations", 0) < 1:
            p.append("evaluations < 1")
        if cov.get("distinct_nontrivial", 0) < 2:
            p.append("distinct_nontrivial < 2")
        if not cov.get("rule"):
            p.append("no rule")
        if not cov.get("samples"):
            p.append("no samples")
    if ev["level"] == "model_checking":
        for k in ("states", "transitions"):
            if cov.get(k, 0) < 1:
                p.append("%s < 1" % k)
        if "traces_validated_against_impl" not in cov:
            p.append("no traces_validated_against_impl")
        if not cov.get("samples"):
            p.append("no samples")
    return p


# ---------------------------------------------------------------------------------------------------------
# replay of one violation file, without the explorer, twice, in fresh interpreters
# ---------------------------------------------------------------------------------------------------------
def replay_file(check, path, inner=False):
    with open(path) as fh:
        rec = json.load(fh)
    if inner:
        obs = check.replay(rec)
        print("REPLAY-OBS " + json.dumps(_jsonable(obs), sort_keys=True))
        return 0
    outs = []
    for _ in range(2):
        cp = subprocess.run([sys.executable, "-m", "vf.main", check.id, "--replay-inner", path], cwd=VERIF,
                            capture_output=True, text=True)
        o = [ln for ln in cp.stdout.splitlines() if ln.startswith("REPLAY-OBS ")]
        if cp.returncode != 0 or not o:
            print("HARNESS-ERROR property=%s replay failed: %s" % (check.id, cp.stderr[-800:]))
            return 2
        outs.append(json.loads(o[-1][len("REPLAY-OBS "):]))
    if outs[0] != outs[1]:
        print("HARNESS-ERROR property=%s replay is nondeterministic: %r vs %r" % (check.id, outs[0], outs[1]))
        return 2
    obs = outs[0]
    print("replayed %s: expected=%r observed=%r (recorded observation: %r)" % (
        path, rec.get("expected"), obs, rec.get("observed")))
    if obs.get("violates", True):
        print("VIOLATION property=%s replay=%s" % (check.id, path))
        return 1
    print("replay no longer violates the property")
    return 0
