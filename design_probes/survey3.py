import sys, itertools, time, collections
from multiprocessing import Pool
import ref
from ref import V, N, A, O, TOP, BOT

SIG = ["a", "b", "c"]
W = list(ref.worlds(SIG))
ALL = (1 << len(W)) - 1
lits = [V(x) for x in SIG] + [N(V(x)) for x in SIG]
def at(l): return l[1] if l[0] == "var" else l[1][1]
CONDS = [(l, m) for l in lits for m in lits if at(l) != at(m)] + [(l, TOP) for l in lits]
QUERIES = [(l, m) for l in lits for m in lits if at(l) != at(m)]
for l in lits:
    others = [m for m in lits if at(m) != at(l)]
    for m1, m2 in itertools.combinations(others, 2):
        if at(m1) != at(m2):
            QUERIES.append((l, A(m1, m2)))
            QUERIES.append((l, O(m1, m2)))
CONFIGS = [("system-w", "rc2"), ("system-w", "z3"), ("lex_inf", "rc2"), ("lex_inf", "z3")]

def work(conds):
    import drv
    sems = [ref.sem(c, W) for c in conds]
    p = ref.partition(sems, ALL)
    qsem = [ref.sem(q, W) for q in QUERIES]
    refs = {"system-w": [ref.ref_w(p, sems, q, ALL) for q in qsem],
            "lex_inf": [ref.ref_lex(p, sems, q, ALL) for q in qsem],
            "system-z": [ref.ref_z(p, sems, q, ALL) for q in qsem]}
    bb = drv.mkbb(SIG, conds)
    qobjs = [drv.mkcond(q) for q in QUERIES]
    diffs = []
    for system, pm in CONFIGS:
        r = drv.run_low(bb, system, pm, False, qobjs)
        if isinstance(r, tuple):
            diffs.append((system, pm, "PRE_EXC", r)); continue
        for qi, (x, y) in enumerate(zip(r, refs[system])):
            if x != y: diffs.append((system, pm, qi, (x, y)))
    sep = (sum(1 for x, y in zip(refs["system-z"], refs["system-w"]) if x != y),
           sum(1 for x, y in zip(refs["system-w"], refs["lex_inf"]) if x != y))
    return conds, diffs, sep

if __name__ == "__main__":
    size = int(sys.argv[1]); limit = int(sys.argv[2])
    bases = []
    for cs in itertools.combinations(CONDS, size):
        sems = [ref.sem(c, W) for c in cs]
        p = ref.partition(sems, ALL)
        if p is False or len(p) < 2: continue
        bases.append(list(cs))
    print("multi-layer consistent bases", len(bases), "queries", len(QUERIES))
    bases = bases[:limit] if limit else bases
    t = time.time(); agg = collections.Counter(); ex = {}; sepz = sepw = 0
    with Pool(16) as p:
        for conds, diffs, sep in p.imap_unordered(work, bases, chunksize=2):
            sepz += sep[0]; sepw += sep[1]
            for system, pm, qi, d in diffs:
                kind = qi if isinstance(qi, str) else ("EXC:" + d[0][1] if isinstance(d[0], tuple) else f"impl={d[0]} ref={d[1]}")
                key = (system, pm, kind); agg[key] += 1
                if key not in ex:
                    ex[key] = ([f"({ref.txt(B)}|{ref.txt(A_)})" for B, A_ in conds], None if isinstance(qi, str) else f"({ref.txt(QUERIES[qi][0])}|{ref.txt(QUERIES[qi][1])})", d)
    print("time", round(time.time() - t, 1), "Z!=W cases", sepz, "W!=lex cases", sepw)
    for k in sorted(agg, key=str): print(k, agg[k], ex[k])
