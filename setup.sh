#!/bin/bash
# MANIFEST.setup_cmd: byte-compile the framework and run the reference-model self-tests (offline, files on disk only).
cd "$(dirname "$0")" || exit 2
export PYTHONDONTWRITEBYTECODE=
/venv/bin/python -m compileall -q vf || exit 1
/venv/bin/python -m vf.selftest || exit 1
mkdir -p evidence replays
echo "setup ok"
