"""Exploratory reference semantics (brute force over worlds)."""
import itertools
from functools import lru_cache

# ---- formulas -----------------------------------------------------------
TOP = ("top",)
BOT = ("bot",)
def V(n): return ("var", n)
def N(f): return ("not", f)
def A(f, g): return ("and", f, g)
def O(f, g): return ("or", f, g)

def atoms(f, acc=None):
    if acc is None: acc = []
    if f[0] == "var":
        if f[1] not in acc: acc.append(f[1])
    elif f[0] in ("not",):
        atoms(f[1], acc)
    elif f[0] in ("and", "or"):
        atoms(f[1], acc); atoms(f[2], acc)
    return acc

def ev(f, w):
    t = f[0]
    if t == "top": return True
    if t == "bot": return False
    if t == "var": return w[f[1]]
    if t == "not": return not ev(f[1], w)
    if t == "and": return ev(f[1], w) and ev(f[2], w)
    if t == "or": return ev(f[1], w) or ev(f[2], w)
    raise ValueError(f)

def txt(f, top=True):
    t = f[0]
    if t == "top": return "Top"
    if t == "bot": return "Bottom"
    if t == "var": return f[1]
    if t == "not":
        return "!" + txt(f[1], False)
    if t == "and":
        s = txt(f[1], False) + "," + txt(f[2], False)
    else:
        s = txt(f[1], False) + ";" + txt(f[2], False)
    return s if top else "(" + s + ")"

def to_pysmt(f):
    from pysmt.shortcuts import Symbol, Not, And, Or, TRUE, FALSE
    t = f[0]
    if t == "top": return TRUE()
    if t == "bot": return FALSE()
    if t == "var": return Symbol(f[1])
    if t == "not": return Not(to_pysmt(f[1]))
    if t == "and": return And(to_pysmt(f[1]), to_pysmt(f[2]))
    if t == "or": return Or(to_pysmt(f[1]), to_pysmt(f[2]))

def worlds(sig):
    for bits in itertools.product([False, True], repeat=len(sig)):
        yield dict(zip(sig, bits))

# a conditional is (B, A) ; semantic view over a fixed world list: (ver mask, fal mask)
def sem(cond, W):
    B, A_ = cond
    ver = 0; fal = 0
    for i, w in enumerate(W):
        if ev(A_, w):
            if ev(B, w): ver |= 1 << i
            else: fal |= 1 << i
    return ver, fal

def partition(sems, allmask, extended=False, feasible=None):
    """sems: list of (ver, fal) masks; returns list of lists of indices or False.
    extended: last element is the infinity layer."""
    if feasible is None: feasible = allmask
    rem = list(range(len(sems)))
    part = []
    while rem:
        ok = feasible
        for i in rem: ok &= ~sems[i][1]
        layer = [i for i in rem if sems[i][0] & ok]
        if not layer:
            if extended:
                if ok == 0: return False
                part.append(rem)
                return part
            return False
        part.append(layer)
        rem = [i for i in rem if i not in layer]
    if extended: part.append([])
    return part

def split_ext(sems, allmask):
    p = partition(sems, allmask, extended=True)
    if p is False: return False
    inf = p[-1]
    feas = allmask
    for i in inf: feas &= ~sems[i][1]
    return p[:-1], inf, feas

def bits(m):
    i = 0
    while m:
        if m & 1: yield i
        m >>= 1; i += 1

def zrank(part, sems, w):
    r = 0
    for li, layer in enumerate(part):
        for i in layer:
            if sems[i][1] >> w & 1: r = li + 1
    return r

INF = float("inf")

def trivial(q, feas):
    v, f = q
    v &= feas; f &= feas
    if (v | f) == 0 or f == 0: return True
    if v == 0: return False
    return None

def ref_z(part, sems, q, feas):
    t = trivial(q, feas)
    if t is not None: return t
    rv = min(zrank(part, sems, w) for w in bits(q[0] & feas))
    rf = min(zrank(part, sems, w) for w in bits(q[1] & feas))
    return rv < rf

def falsets(part, sems, w):
    return tuple(frozenset(i for i in layer if sems[i][1] >> w & 1) for layer in part)

def w_less(a, b):
    # a, b: tuples of frozensets, index 0 = lowest layer. compare from highest down
    for x, y in zip(reversed(a), reversed(b)):
        if x == y: continue
        return x < y
    return False

def ref_w(part, sems, q, feas):
    t = trivial(q, feas)
    if t is not None: return t
    vs = [falsets(part, sems, w) for w in bits(q[0] & feas)]
    fs = [falsets(part, sems, w) for w in bits(q[1] & feas)]
    return all(any(w_less(v, f) for v in vs) for f in fs)

def ref_lex(part, sems, q, feas):
    t = trivial(q, feas)
    if t is not None: return t
    def vec(w):
        fs = falsets(part, sems, w)
        return tuple(len(x) for x in reversed(fs))
    mv = min(vec(w) for w in bits(q[0] & feas))
    mf = min(vec(w) for w in bits(q[1] & feas))
    return mv < mf

def crep_vectors(sems, allmask, bound):
    n = len(sems)
    nW = allmask.bit_length()
    falby = [[i for i in range(n) if sems[i][1] >> w & 1] for w in range(nW)]
    out = []
    for eta in itertools.product(range(bound + 1), repeat=n):
        k = [sum(eta[i] for i in falby[w]) for w in range(nW)]
        ok = True
        for i in range(n):
            v = [k[w] for w in bits(sems[i][0])]
            f = [k[w] for w in bits(sems[i][1])]
            if not v: ok = False; break
            if f and not (min(v) < min(f)): ok = False; break
        if ok: out.append((eta, k))
    return out

def ref_c(creps, q):
    t = trivial(q, -1)
    if t is not None: return t
    for eta, k in creps:
        mv = min(k[w] for w in bits(q[0])); mf = min(k[w] for w in bits(q[1]))
        if not mv < mf: return False
    return True

def ref_p_strict(sems, allmask, q):
    t = trivial(q, allmask)
    if t is True: return True
    # D + (notB|A): ver = q.fal, fal = q.ver
    return partition(sems + [(q[1], q[0])], allmask) is False

def weak_orders(n):
    """all ordered set partitions of range(n) as rank tuples (dense ranks from 0)"""
    # generate rank assignments r: [0..n)->[0..k) surjective
    for k in range(1, n + 1):
        for r in itertools.product(range(k), repeat=n):
            if len(set(r)) == k: yield r

def ref_p_models(sems, nW, q, extended=False):
    """definitional: accepted by every ranking model (over total preorders [+ infinite class])."""
    def acc(rank, c):
        v = [rank[w] for w in bits(c[0])]; f = [rank[w] for w in bits(c[1])]
        mv = min(v) if v else INF; mf = min(f) if f else INF
        if extended:
            return mv < mf or (mv == INF and mf == INF)
        return mv < mf
    res = True
    ws = list(range(nW))
    subsets = [()] if not extended else [s for k in range(nW) for s in itertools.combinations(ws, k)]
    for infset in subsets:
        fin = [w for w in ws if w not in infset]
        for r in weak_orders(len(fin)):
            rank = [INF] * nW
            for w, x in zip(fin, r): rank[w] = x
            if all(acc(rank, c) for c in sems):
                if not extended:
                    # strict: A&!B unsat or A unsat => True handled by caller
                    pass
                if not acc(rank, q): return False
    return res
