import warnings, logging, traceback
warnings.filterwarnings("ignore"); logging.disable(logging.CRITICAL)
from parser.Wrappers import parse_formula, parse_belief_base, parse_queries
def tryp(f, s):
    try:
        r = f(s); 
        if hasattr(r,'conditionals'): r = (r.signature, r.conditionals)
        print(repr(s), "->", r)
    except BaseException as e:
        print(repr(s), "-> EXC", type(e).__name__, str(e)[:80])
for s in ["a b", "a,", "a)", "(a", "a;;b", "!a,b;c", "a;b,c", "!(a;b),c", "a $", "a\nb", "", "Top,a", "a b c", "a ! b", "a(b)", "a,b)c"]:
    tryp(parse_formula, s)
for s in ["(a|b) (b|a)", "(a|b),(b|a))", "(a|b),", "(a|b) garbage", "(a|b", "(a b|c)", "(a|b)(c|d)"]:
    tryp(parse_queries, s)
bbs = ["signature\na,b\n\nconditionals\nkb{\n(b|a)\n}\ntrailing garbage",
       "signature\na,b\n\nconditionals\nkb{\n(b|a)\n} }",
       "signature\na,b\nconditionals\nkb{\n(b|a),\n(a|b)\n}\n",
       "signature\na,b\nconditionals\nkb{\n(b|a)\n(a|b)\n}\n",
       "signature\na,a\nconditionals\nkb{\n(b|a)\n}\n",
       "signature\na,b\nconditionals\nkb{\n(c|a)\n}\n",
       "signature a,b\nconditionals\nkb{(b|a)}",
       "signature\na,b\nconditionals\nkb{(b|a)}\nconditionals\nkb2{(a|b)}",
       ]
for s in bbs: tryp(parse_belief_base, s)
