"""Reference-only: enumerate type structures; probe whether type-level queries expose the lex all-pairs discrepancy."""
import itertools, sys, time, collections
import ref, lexsearch
from ref import V, N, A, O, TOP

if __name__ == "__main__":
    nat = int(sys.argv[1]); size = int(sys.argv[2]); rich = int(sys.argv[3])
    SIG = ["a", "b", "c", "d"][:nat]
    W = list(ref.worlds(SIG)); ALL = (1 << len(W)) - 1
    lits = [V(x) for x in SIG] + [N(V(x)) for x in SIG]
    def at(l): return l[1] if l[0] == "var" else l[1][1]
    ants = lits + ([A(l, m) for l, m in itertools.combinations(lits, 2) if at(l) != at(m)] if rich else [])
    CONDS = [(l, m) for l in lits for m in ants if at(l) not in ref.atoms(m)]
    csem = [ref.sem(c, W) for c in CONDS]
    print("conds", len(CONDS))
    t = time.time(); n = 0; structs = {}; found = 0; Tdist = collections.Counter()
    for idxs in itertools.combinations(range(len(CONDS)), size):
        sems = [csem[i] for i in idxs]
        p = ref.partition(sems, ALL)
        if p is False or len(p) < 2: continue
        n += 1
        types = collections.defaultdict(int)
        for w in range(len(W)):
            types[ref.falsets(p, sems, w)] |= 1 << w
        # canonical structure: rename conditionals within layers canonically -> approximate by sorted tuple of per-layer size vectors + inclusion pattern
        key = tuple(sorted(tuple(tuple(sorted(x)) for x in ty) for ty in types))
        # rename indices by layer position order to make key base-independent
        ren = {}
        for li, layer in enumerate(p):
            for j, i in enumerate(layer): ren[i] = (li, j)
        key = tuple(sorted(tuple(tuple(sorted(ren[i] for i in x)) for x in ty) for ty in types))
        if key in structs: continue
        structs[key] = idxs
        T = list(types.items()); Tdist[len(T)] += 1
        hit = False
        for k in (1, 2):
            for Vs in itertools.combinations(range(len(T)), k):
                for Fs in itertools.combinations(range(len(T)), 1):
                    if set(Vs) & set(Fs): continue
                    qv = 0
                    for i in Vs: qv |= T[i][1]
                    qf = T[Fs[0]][1]
                    r = ref.ref_lex(p, sems, (qv, qf), ALL)
                    a_ = lexsearch.alg_lex(p, sems, qv, qf, len(p) - 1)
                    if r != a_: hit = True
        if hit:
            found += 1
            if found <= 3: print("HIT", [f"({ref.txt(CONDS[i][0])}|{ref.txt(CONDS[i][1])})" for i in idxs], p)
    print("bases", n, "structures", len(structs), "T distribution", sorted(Tdist.items()), "structures exposing", found, "time", round(time.time() - t, 1))
