"""Generic operator-vs-reference check used by C01-C05 (strict mode) and C07 (extended mode)."""
from .. import forms, opsem, ref, scopes
from ..runner import Check


def qsem2():
    """81 semantic classes of conditionals over {a,b} (first syntactic member each) + the 8 foreign-atom queries."""
    return scopes.semclass_reps(scopes.C2, scopes.SIG2) + scopes.QZ


WSIG2 = scopes.SIG2 + ["z"]
CHUNK = 220   # queries per task (load balancing; a task = one base x one slice of its query set)


def alt_keys(i, n):
    """Programmatically built bases use, by residue class of the task index, the parser's keys 1..n (None), keys
    2..n+1, keys 0..n-1, or gapped keys 1,3,5,.. - all are legitimate distinct integer keys."""
    r = i % 5
    if r == 2:
        return [k + 2 for k in range(n)]
    if r == 3:
        return list(range(n))
    if r == 4:
        return [2 * k + 1 for k in range(n)]
    return None


def nq_type(conds, sig, spec):
    sems = [forms.sem(c, sig) for c in conds]
    nW = 1 << len(sig)
    if spec[0] == "T21":
        tq = set(scopes.type_queries(sems, nW, 2, 1)) | set(scopes.type_queries(sems, nW, 1, 2))
        return len(tq) + 72
    if spec[0] == "W12":
        return len(scopes.world_queries(nW)) + 72
    return len(scopes.type_queries(sems, nW, spec[0], spec[1])) + 72


class OperatorCheck(Check):
    level = "exploration"
    cfgs = ()
    want = ("strong",)
    weakly = False
    b3 = {   # tier -> list of (alphabet, max subset size, per_class, type-query spec)
        "quick": [("L3", 4, 1, ("T21", 0))],
        "thorough": [("L3", 4, 3, (2, 2)), ("L3T", 4, 1, (2, 2)), ("L3PLUS", 3, 1, (2, 2)), ("L3", 5, 1, ("T21", 0))],
    }
    sem_all_bases = {"quick": 0, "thorough": 10}
    use_b1 = True
    use_a4 = {"quick": False, "thorough": True}
    b1_full_q2 = True     # quick: B1 x all 264 syntactic queries (False: x the 89 semantic-class queries)
    use_b2 = True
    maxn = 99

    def tasks(self):
        tier, seed = self.tier, self.seed
        out = []
        self.stats = {}
        bases, st = opsem.sig2_bases(self.want, seed, quick=(tier == "quick"))
        self.stats["sig2"] = st
        q2 = [list(q) for q in scopes.Q2]
        qs2 = [list(q) for q in qsem2()]
        n = 0
        for conds, cls, scope in bases:
            if scope == "B1" and not self.use_b1:
                continue
            if scope != "B1" and not self.use_b2:
                continue
            via = "parse" if (n + seed) % 4 == 0 else "api"
            n += 1
            qspec = ("list", q2 if (scope == "B1" and (self.b1_full_q2 or tier != "quick")) else qs2)
            out.append(opsem.make_task(scopes.SIG2, conds, self.weakly, self.cfgs, qspec, via=via, wsig=WSIG2, cls=cls,
                                       scope=scope, keys=alt_keys(n, len(conds)) if via == "api" else None,
                                       labels=(via == "api" and n % 3 == 1), debug_log=(n % 7 == 3)))
        # bases containing the SAME conditional twice (same formulas, same text, different keys): [c1, c1, c2] for every
        # structure representative [c1, c2] of the literal pairs
        reps2, _st = scopes.structural_scope(scopes.L3, scopes.SIG3, 2, ("strong", "weak-finite", "weak-nofinite"), seed, 1, minsize=2)
        ndup = 0
        for i, (pair, _cls) in enumerate(reps2):
            for conds in ([pair[0], pair[0], pair[1]], [pair[0], pair[1], pair[1]]):
                cls = ref.classify([forms.sem(x, scopes.SIG3) for x in conds], forms.allmask(scopes.SIG3))
                if cls in self.want and len(conds) <= (self.maxn[tier] if isinstance(self.maxn, dict) else self.maxn):
                    out.append(opsem.make_task(scopes.SIG3, conds, self.weakly, self.cfgs, ("type", "T21", 0, True), via="api", cls=cls,
                                               scope="B3dup"))
                    ndup += 1
        self.stats["B3dup"] = ndup
        for entry in self.b3[tier]:
            alpha_name, size, per_class, tq = entry[:4]
            step = entry[4] if len(entry) > 4 else 1      # every step-th structure (residue chosen by the seed)
            size = min(size, self.maxn[tier] if isinstance(self.maxn, dict) else self.maxn)
            reps, st = scopes.structural_scope(getattr(scopes, alpha_name), scopes.SIG3, size, self.want, seed, per_class)
            reps = reps[seed % step::step]
            st["executed_representatives"] = len(reps)
            self.stats["B3(%d)-%s" % (size, alpha_name)] = st
            for i, (conds, cls) in enumerate(reps):
                via = "parse" if (i + seed) % 4 == 1 else "api"
                nq = nq_type(conds, scopes.SIG3, tq)
                nch = max(1, -(-nq // CHUNK))
                for ch in range(nch):
                    out.append(opsem.make_task(scopes.SIG3, conds, self.weakly, self.cfgs, ("type", tq[0], tq[1], True),
                                               via=via, cls=cls, scope="B3(%d)-%s" % (size, alpha_name), qslice=(ch, nch),
                                               keys=alt_keys(i, len(conds)) if via == "api" else None,
                                               labels=(via == "api" and i % 3 == 2), debug_log=(i % 7 == 5)))
                if alpha_name == "L3" and i % max(1, len(reps) // max(1, self.sem_all_bases[tier])) == 0 \
                        and self.sem_all_bases[tier] and len(conds) >= 3:
                    for r_ in range(30):
                        out.append(opsem.make_task(scopes.SIG3, conds, self.weakly, self.cfgs,
                                                   ("sem-all", "cnf" if r_ % 2 else "dnf"), via="api", cls=cls,
                                                   scope="B3-semall", qslice=(r_, 30)))
        # four atoms: structure representatives of the <=4-subsets of a 12-element chain/bridge alphabet x literal queries
        if self.use_a4[tier]:
            reps4, st4 = scopes.structural_scope(scopes.A4, scopes.SIG4, min(4, self.maxn[tier] if isinstance(self.maxn, dict) else self.maxn),
                                                 self.want, seed, 1)
            self.stats["A4(4 atoms)"] = st4
            q4 = [list(q) for q in scopes.literal_queries4()]
            for i, (conds, cls) in enumerate(reps4):
                nch = 2
                for ch in range(nch):
                    out.append(opsem.make_task(scopes.SIG4, conds, self.weakly, self.cfgs, ("list", q4), via="parse" if i % 4 == 0 else "api",
                                               cls=cls, scope="A4", qslice=(ch, nch)))
        return out

    def run(self, task):
        return opsem.compare_with_reference(self.id, task)

    def coverage_extra(self, agg):
        return {"scope_stats": getattr(self, "stats", {}), "configs": list(self.cfgs)}

    def replay(self, rec):
        return opsem.replay(rec)
