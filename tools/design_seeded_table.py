#!/usr/bin/env python3
"""Rewrites section 9 of DESIGN.md from seeded/*/meta.json (which checks report which seeded change)."""
import glob, json, os, re
HERE = os.path.dirname(os.path.dirname(os.path.abspath(__file__)))
metas = [json.load(open(p)) for p in sorted(glob.glob(os.path.join(HERE, "seeded", "*", "meta.json")))]
by_check = {}
for m in metas:
    for c in m["detection"]["caught_by"]:
        by_check.setdefault(c, []).append(m["id"])
lines = ["## 9. Seeded property-breaking changes (detection demonstration)\n",
         "%d changes written by fresh sub-agents (property text + scratch worktree only), each confirmed to keep the repository's 82 tests" % len(metas),
         "green and to fail its own demonstration; kept under `seeded/<id>/` (patch.diff, demo.py, notes.md, meta.json); full table with what",
         "each needs in order to manifest and what was strengthened: `seeded/README.md`; regression over all of them: `tools/seeded_all.sh`.",
         "%d of them were missed by the first version of the checks and led to the additions listed at the end of section 6a.\n" % sum(1 for m in metas if m["detection"].get("missed_by_first_version_of")),
         "| check | seeded changes it reports (quick tier) |", "|---|---|"]
for c in sorted(by_check):
    lines.append("| %s | %s |" % (c, ", ".join(by_check[c])))
cross = ["%s (by %s)" % (m["id"], "/".join(m["detection"]["caught_by"])) for m in metas if m["breaks_property"] not in m["detection"]["caught_by"]]
lines.append("\nSeeded for one property but outside what that property's check can see, reported by another check: %s." % "; ".join(cross))
s = open(os.path.join(HERE, "DESIGN.md")).read()
i = s.index("## 9. Seeded property-breaking changes")
open(os.path.join(HERE, "DESIGN.md"), "w").write(s[:i] + "\n".join(lines) + "\n")
print("ok", len(metas))
