"""Shared engine of the operator-semantics checks (C01-C05, C07, C08, C11): run the real operators on one base and a
completely enumerated query set, compare every answer with the reference model / with each other."""
import itertools

from . import drive, forms, ref, scopes
from .runner import Result

SYS_OF = {k: v[0] for k, v in drive.CONFIGS.items()}


def tup(x):
    """JSON lists back to tuple formulas."""
    if isinstance(x, list):
        return tuple(tup(y) for y in x)
    return x


def make_task(sig, conds, weakly, cfgs, qspec, keys=None, via="api", wsig=None, cls=None, scope="", qslice=None, labels=False,
              debug_log=False):
    return {
        "labels": bool(labels), "debug_log": bool(debug_log),
        "qslice": tuple(qslice) if qslice else None,
        "sig": list(sig), "wsig": list(wsig or sig), "conds": [tup(c) for c in conds], "weakly": bool(weakly),
        "cfgs": list(cfgs), "qspec": tuple(qspec), "keys": list(keys) if keys else None, "via": via, "cls": cls,
        "scope": scope,
    }


def queries_for(task, rb):
    """-> list of (query conditional as tuple formulas, (V, F) masks over wsig)."""
    qs = task["qspec"]
    wsig = task["wsig"]
    nW = 1 << len(wsig)
    out = []
    if qs[0] == "list":
        for qc in qs[1]:
            qc = tup(qc)
            out.append((qc, forms.sem(qc, wsig)))
    elif qs[0] == "type":
        _k, maxv, maxf, lits = qs
        if maxv == "T21":
            tq = scopes.type_queries(rb.sems, nW, 2, 1)
            tq += [x for x in scopes.type_queries(rb.sems, nW, 1, 2) if x not in set(tq)]
            # plus every (2,2) type-level query that the reference classifies as tie-rich (>= 2 tied sets in a layer above
            # the lowest): these are the inputs on which the tie handling of the W / lex recursions can go wrong
            part = rb.fin if task["weakly"] else rb.part
            feas = rb.feas if task["weakly"] else rb.full
            if part is not None and len(part) >= 2:
                have = set(tq)
                tq += [x for x in scopes.type_queries(rb.sems, nW, 2, 2) if x not in have and ref.tie_rich(part, rb.sems, x, feas)]
        elif maxv == "W12":
            tq = scopes.world_queries(nW)
        else:
            tq = scopes.type_queries(rb.sems, nW, maxv, maxf)
        for vf in tq:
            out.append((scopes.render_query(wsig, vf, "dnf"), vf))
        if lits:
            for qc in scopes.literal_queries3():
                out.append((qc, forms.sem(qc, wsig)))
    elif qs[0] == "tie":
        # only the tie-rich (2,2) type-level queries (see ref.tie_rich) plus the literal queries
        part = rb.fin if task["weakly"] else rb.part
        feas = rb.feas if task["weakly"] else rb.full
        if part is not None and len(part) >= 2:
            for vf in scopes.type_queries(rb.sems, nW, 2, 2):
                if ref.tie_rich(part, rb.sems, vf, feas):
                    out.append((scopes.render_query(wsig, vf, "dnf"), vf))
        for qc in scopes.literal_queries3():
            out.append((qc, forms.sem(qc, wsig)))
    elif qs[0] == "sem-all":
        style = qs[1]
        for vf in scopes.all_semantic_queries(nW):
            out.append((scopes.render_query(wsig, vf, style), vf))
    elif qs[0] == "sem-slice":
        # every k-th semantic query (complete enumeration of a stated residue class)
        _k, style, mod, res = qs
        for i, vf in enumerate(scopes.all_semantic_queries(nW)):
            if i % mod == res:
                out.append((scopes.render_query(wsig, vf, style), vf))
    else:
        raise ValueError(qs)
    if task.get("qslice"):
        i, n = task["qslice"]
        out = out[i::n]
    return out


def build_bb(task):
    if task["via"] == "parse":
        bb = drive.parse_bb(task["sig"], task["conds"])
        if task["keys"]:
            raise ValueError("parse path has parser keys")
        return bb
    bb = drive.mkbb(task["sig"], task["conds"], task["keys"])
    if task.get("labels"):
        # the text representation of a conditional is a free-form label: nothing may depend on it being the formula's text
        for i, cnd in enumerate(bb.conditionals.values(), start=1):
            cnd.textRepresentation = "r%d" % i
    return bb


def refbase(task):
    wsig = task["wsig"]
    return ref.RefBase([forms.sem(c, wsig) for c in task["conds"]], forms.allmask(wsig))


def case_of(task, cfg, qc, vf):
    return {
        "scope": task["scope"], "sig": task["sig"], "wsig": task["wsig"],
        "conds": [forms.ctxt(c) for c in task["conds"]], "conds_f": task["conds"], "keys": task["keys"],
        "weakly": task["weakly"], "via": task["via"], "config": cfg, "cls": task["cls"], "labels": task.get("labels", False), "debug_log": task.get("debug_log", False),
        "query": forms.ctxt(qc), "query_f": qc, "V": vf[0], "F": vf[1],
    }


def run_impl(task, cfgs=None):
    """Real answers: {cfg: [bool | ('EXC',..)]} plus the query list and reference base."""
    rb = refbase(task)
    qs = queries_for(task, rb)
    qconds = [drive.mkcond(qc) for qc, _ in qs]
    answers = {}
    for cfg in (cfgs or task["cfgs"]):
        system, pm = drive.CONFIGS.get(cfg) or (cfg.split("@")[0], cfg.split("@")[1])
        bb = build_bb(task)   # fresh objects per configuration
        if task.get("debug_log"):
            with drive.debug_logging():
                answers[cfg] = drive.ask(bb, system, pm, task["weakly"], qconds)
        else:
            answers[cfg] = drive.ask(bb, system, pm, task["weakly"], qconds)
    return rb, qs, answers


def nontrivial_counters(res, rb, qs, weakly):
    """Reference-side non-vacuity counters for one base."""
    part = rb.fin if weakly else rb.part
    feas = rb.feas if weakly else rb.full
    res.counters["tasks_base_x_query_slice"] += 1
    for qc, vf in qs:
        t = ref.trivial(vf, feas)
        if t is not None:
            res.counters["queries_decided_by_vacuity_rule"] += 1
            continue
        res.counters["queries_nonvacuous"] += 1
        if part is None:
            continue
        zz = ref.ref_z(part, rb.sems, vf, feas)
        ww = ref.ref_w(part, rb.sems, vf, feas)
        ll = ref.ref_lex(part, rb.sems, vf, feas)
        if zz != ww:
            res.counters["pairs_Z_differs_from_W"] += 1
        if ww != ll:
            res.counters["pairs_W_differs_from_lex"] += 1


def compare_with_reference(prop, task, res=None, cfgs=None, count=True):
    """The deciding step of C01-C05/C07: every answer of every configured operator equals the reference."""
    res = res or Result()
    rb, qs, answers = run_impl(task, cfgs)
    weakly = task["weakly"]
    if count:
        nontrivial_counters(res, rb, qs, weakly)
        if not task.get("qslice") or task["qslice"][0] == 0:      # count each base once, not once per query slice
            part = rb.fin if weakly else rb.part
            res.counters["bases"] += 1
            res.counters["bases_cls_%s" % rb.cls] += 1
            if part is not None:
                res.counters["bases_depth_%d" % len(part)] += 1
    dig = []
    for cfg, ans in answers.items():
        system = SYS_OF.get(cfg, cfg.split("@")[0])
        for (qc, vf), got in zip(qs, ans):
            exp = rb.answer(system, vf, weakly)
            if exp is None:
                raise RuntimeError("reference does not accept base for %s: %r" % (system, task))
            res.evals += 1
            res.outcomes.add((cfg, repr(got)))
            if got is exp:
                if ref.trivial(vf, rb.feas if weakly else rb.full) is None:
                    res.nontrivial.add(hash((tuple(task["conds"]), weakly, cfg, vf)))
                continue
            kind = "exception" if drive.is_exc(got) else "wrong-answer"
            detail = violation_detail(rb, task, system, vf)
            res.violation(prop, kind, case_of(task, cfg, qc, vf), exp, got, detail)
        dig.append((cfg, [repr(x) for x in ans]))
    res.digest = dig
    if not res.samples and qs:
        qc, vf = qs[len(qs) // 2]
        res.samples.append({"base": [forms.ctxt(c) for c in task["conds"]], "mode": "extended" if weakly else "strict",
                            "via": task["via"], "class": rb.cls, "queries": len(qs), "example_query": forms.ctxt(qc),
                            "answers": {cfg: repr(ans[len(qs) // 2]) for cfg, ans in answers.items()}})
    return res


def violation_detail(rb, task, system, vf):
    """Reference-side facts about the failing case, used to identify known findings precisely."""
    weakly = task["weakly"]
    part = rb.fin if weakly else rb.part
    feas = rb.feas if weakly else rb.full
    d = {"base_class": rb.cls, "system": system,
         "has_constant": any(_has_const(f) for c in task["conds"] for f in c),
         "unfalsifiable_in_base": any(s[1] == 0 for s in rb.sems),
         "unverifiable_in_base": any(s[0] == 0 for s in rb.sems),
         "vacuous": ref.trivial(vf, feas) is not None}
    if part is not None:
        d["depth"] = len(part)
        d["ref_z"] = ref.ref_z(part, rb.sems, vf, feas)
        d["ref_w"] = ref.ref_w(part, rb.sems, vf, feas)
        d["ref_lex"] = ref.ref_lex(part, rb.sems, vf, feas)
    return d


def _has_const(f):
    if f[0] in ("top", "bot"):
        return True
    return any(_has_const(g) for g in f[1:] if isinstance(g, tuple))


def replay(rec):
    """Re-execute one recorded (base, configuration, query) without the explorer."""
    c = rec["case"]
    task = make_task(c["sig"], c["conds_f"], c["weakly"], [c["config"]], ("list", [c["query_f"]]), keys=c["keys"],
                     via=c["via"], wsig=c["wsig"], cls=c.get("cls"), scope=c.get("scope", ""), labels=c.get("labels", False), debug_log=c.get("debug_log", False))
    rb, qs, answers = run_impl(task)
    got = answers[c["config"]][0]
    system = SYS_OF.get(c["config"], c["config"].split("@")[0])
    exp = rb.answer(system, qs[0][1], c["weakly"])
    return {"observed": got, "expected": exp, "violates": got is not exp}


# ---------------------------------------------------------------------------------------------------------
# scope builders shared by several checks
# ---------------------------------------------------------------------------------------------------------
def sig2_bases(want, seed, quick=True):
    """B1 (all 256 one-conditional bases over C2) and B2 whose reference classification is in `want`.
    B2 quick: one representative (rotating with the seed) per conditional structure of all unordered pairs over
    the 80-class sub-alphabet of C2 (every semantic class with a satisfiable antecedent); thorough: all those pairs
    (3 160) plus all pairs of one conditional with itself in its secondary syntactic form (duplicates).
    -> list of (conds, cls, scope), stats."""
    full = forms.allmask(scopes.SIG2)
    out = []
    stats = {"B1_enumerated": 0}
    for cnd in scopes.C2:
        stats["B1_enumerated"] += 1
        cls = ref.classify([forms.sem(cnd, scopes.SIG2)], full)
        if cls in want:
            out.append(([cnd], cls, "B1"))
    stats["B1_kept"] = len(out)
    alpha = scopes.C2_sub()
    if quick:
        reps, st = scopes.structural_scope(alpha, scopes.SIG2, 2, want, seed, 1, minsize=2)
        stats["B2"] = st
        out += [(conds, cls, "B2") for conds, cls in reps]
        ndup = 0
        for c1, c2 in list(zip(scopes.C2, scopes.C2S))[seed % 16::16]:      # duplicated conditionals (two syntactic forms)
            cls = ref.classify([forms.sem(c1, scopes.SIG2), forms.sem(c2, scopes.SIG2)], full)
            if cls in want:
                out.append(([c1, c2], cls, "B2dup"))
                ndup += 1
        stats["B2dup"] = ndup
    else:
        n = 0
        for c1, c2 in itertools.combinations(alpha, 2):
            cls = ref.classify([forms.sem(c1, scopes.SIG2), forms.sem(c2, scopes.SIG2)], full)
            n += 1
            if cls in want:
                out.append(([c1, c2], cls, "B2"))
        for c1, c2 in zip(scopes.C2, scopes.C2S):
            cls = ref.classify([forms.sem(c1, scopes.SIG2), forms.sem(c2, scopes.SIG2)], full)
            n += 1
            if cls in want:
                out.append(([c1, c2], cls, "B2dup"))
        stats["B2"] = {"enumerated": n}
    stats["kept"] = len(out)
    return out, stats
