from .opcheck import OperatorCheck


class C03(OperatorCheck):
    id = "C03"
    b1_full_q2 = False
    cfgs = ("w-rc2", "w-z3")
    b3 = {
        "quick": [("L3", 4, 1, ("T21", 0)), ("L3MIX", 2, 1, ("T21", 0)), ("L3C3", 2, 1, ("W12", 0))],
        "thorough": [("L3", 4, 2, (2, 2)), ("L3T", 4, 1, ("T21", 0)), ("L3PLUS", 3, 1, ("T21", 0)), ("L3MIX", 3, 1, ("T21", 0)), ("L3C3", 2, 3, ("W12", 0)),
                     ("L3", 5, 1, ("T21", 0), 2)],
    }
    rule = ("E-in: named scopes of C01 (quick: B1 x 89 semantic-class queries instead of all 264 syntactic ones), both partial-MaxSAT back-ends (rc2, z3); oracle: preferred-structure "
            "definition of System W (<_w over falsification-set tuples) by brute force over worlds. "
            "distinct_nontrivial = distinct (base, back-end, query) triples not decided by a vacuity rule with agreeing "
            "answers; counters report pairs where Z differs from W (incomparable falsification sets).")
    assumptions = ["reference model vf/ref.py", "inputs outside the named scopes are not covered by this check"]


CHECK = C03()
