"""C06 consistency verdicts, tolerance partitions, diagnostics flags, refusal of unacceptable bases."""
import itertools

from .. import drive, forms, opsem, ref, scopes
from ..forms import BOT, TOP, A, N, O, V
from ..runner import Check, Result
from .opcheck import alt_keys

a, b = V("a"), V("b")
FACTS = [a, N(a), b, A(a, b), O(a, b), BOT, TOP]


def ref_partition_keys(sems, full, extended):
    p = ref.partition(sems, full, extended=extended)
    if p is False:
        return False
    return [sorted(i + 1 for i in layer) for layer in p]


def impl_partitions(bb, weakly):
    """-> (by objects -> keys, by indices) each False | list of sorted key lists | ('EXC',..)"""
    from inference.consistency_sat import consistency, consistency_indices

    out = []
    ids = {id(c): k for k, c in bb.conditionals.items()}
    try:
        p = consistency(bb, "z3", weakly)[0]
        if p is False:
            out.append(False)
        else:
            out.append([sorted(ids.get(id(c), "?") for c in layer) for layer in p])
    except Exception as e:  # noqa: BLE001
        out.append(drive.exc_obs(e))
    try:
        p = consistency_indices(bb, "z3", weakly)[0]
        out.append(False if p is False else [sorted(layer) for layer in p])
    except Exception as e:  # noqa: BLE001
        out.append(drive.exc_obs(e))
    return out


def ref_diag(sig, conds, facts, extended, uses_facts):
    full = forms.allmask(sig)
    sems = [forms.sem(c, sig) for c in conds]
    d = {}
    if uses_facts:
        m = full
        for f in facts:
            m &= forms.mask(f, sig)
        d["facts_consistent"] = m != 0
    if extended:
        pe = ref.partition(sems, full, extended=True)
        d["belief_base_weakly_consistent"] = pe is not False
        d["belief_base_consistent"] = pe is not False and len(pe[-1]) == 0
    else:
        d["belief_base_consistent"] = ref.partition(sems, full) is not False
    if uses_facts:
        aug = sems + [forms.sem((BOT, N(f)), sig) for f in facts]
        if extended:
            pc = ref.partition(aug, full, extended=True)
            d["combination_consistent"] = pc is not False
            if pc is not False and pe is not False:
                d["combination_infinity_increase"] = len(pc[-1]) > len(pe[-1])
        else:
            d["combination_consistent"] = ref.partition(aug, full) is not False
    return d


class C06(Check):
    id = "C06"
    level = "exploration"
    rule = ("E-in. (a) partitions: every base of B1 (256), of all 3160 pairs over the 80-class alphabet of {a,b}, all 256 "
            "duplicated pairs (a conditional with its secondary syntactic form) and all 256 pairs of a conditional with itself, every <=3-subset of the 30 literal/fact "
            "conditionals over {a,b,c} (4525), and the empty base, in both modes, through consistency() and "
            "consistency_indices(); oracle: the ordered tolerance partition by brute force, compared layer by layer as "
            "multisets of keys (and object identity for the object variant). (b) diagnostics: one base per semantic "
            "class of B1 and per conditional structure of the pairs x all fact lists of length <=2 over "
            "{a,!a,b,(a,b),(a;b),Bottom,Top} (strings and nodes) x the four (extended, uses_facts) cases; oracle: the five "
            "flags from their definitions; plus sequences of three diagnostics calls on ONE base object (each must answer as on a "
            "fresh object and leave the caller's base unchanged). (c) refusal: every operator/back-end/mode on every base of those families the "
            "mode must reject and on the empty base must raise. distinct_nontrivial = distinct (base, mode) with a "
            "multi-layer or rejected partition, plus distinct diagnostic cases with facts.")
    assumptions = ["reference model vf/ref.py", "nothing is claimed beyond 3 atoms / 3 conditionals per base"]
    chunksize = 1

    def tasks(self):
        seed = self.seed
        out = []
        bases = [[c] for c in scopes.C2]
        alpha = scopes.C2_sub()
        bases += [[c1, c2] for c1, c2 in itertools.combinations(alpha, 2)]
        bases += [[c1, c2] for c1, c2 in zip(scopes.C2, scopes.C2S)]
        bases += [[c1, c1] for c1 in scopes.C2]        # the same conditional twice (identical formulas, two keys)
        self.n2 = len(bases)
        for i in range(0, len(bases), 60):
            out.append(("part", scopes.SIG2, bases[i:i + 60], (i // 60 + seed) % 3 == 0))
        b3 = [list(cs) for k in (1, 2, 3) for cs in itertools.combinations(scopes.L3T, k)]
        if self.tier == "thorough":
            b3 += [list(cs) for cs in itertools.combinations(scopes.L3T, 4)]
        b3 += [[(BOT, l)] for l in scopes.LITS3] + [[]]
        self.n3 = len(b3)
        for i in range(0, len(b3), 60):
            out.append(("part", scopes.SIG3, b3[i:i + 60], False))
        # diagnostics
        dbases = [[c] for c in scopes.semclass_reps(scopes.C2, scopes.SIG2)]
        reps, _st = scopes.structural_scope(alpha, scopes.SIG2, 2, ("strong", "weak-finite", "weak-nofinite", "inconsistent"),
                                            seed, 1, minsize=2)
        dbases += [conds for conds, _cls in reps]
        self.nd = len(dbases)
        for i in range(0, len(dbases), 4):
            out.append(("diag", dbases[i:i + 4]))
        for i in range(0, len(dbases), 12):
            out.append(("diag-history", dbases[i:i + 12]))
        # refusal
        rb = [[c] for c in scopes.C2] + [conds for conds, _ in reps]
        reps3, _ = scopes.structural_scope(scopes.L3T, scopes.SIG3, 3, ("weak-finite", "weak-nofinite", "inconsistent"), seed, 1)
        rej = []
        for conds in rb:
            cls = ref.classify([forms.sem(c, scopes.SIG2) for c in conds], forms.allmask(scopes.SIG2))
            if cls != "strong":
                rej.append((scopes.SIG2, conds, cls))
        rej += [(scopes.SIG3, conds, cls) for conds, cls in reps3]
        rej.append((scopes.SIG2, [], "empty"))
        self.nr = len(rej)
        for i in range(0, len(rej), 6):
            out.append(("refuse", rej[i:i + 6]))
        return out

    def run(self, task):
        res = Result()
        dig = []
        if task[0] == "part":
            _k, sig, bases, via_parse = task
            full = forms.allmask(sig)
            for bi, conds in enumerate(bases):
                sems = [forms.sem(c, sig) for c in conds]
                use_parse = via_parse and conds
                bb = drive.parse_bb(sig, conds) if use_parse else drive.mkbb(sig, conds)
                for weakly in (False, True):
                    exp = ref_partition_keys(sems, full, weakly)
                    if bi % 5 == 2:       # a slice of the bases with the library's DEBUG logging switched on
                        with drive.debug_logging():
                            got = impl_partitions(bb, weakly)
                    else:
                        got = impl_partitions(bb, weakly)
                    res.evals += 2
                    dig.append(repr(got))
                    res.outcomes.add(repr(exp)[:40])
                    for variant, g in zip(("consistency", "consistency_indices"), got):
                        if g != exp:
                            res.violation(self.id, "partition", {"sig": sig, "conds": [forms.ctxt(c) for c in conds],
                                          "conds_f": conds, "weakly": weakly, "config": variant, "via": "parse" if use_parse else "api"},
                                          exp, g)
                    if exp is False or len(exp) - (1 if weakly else 0) >= 2 or (weakly and exp and exp[-1]):
                        res.nontrivial.add(hash((tuple(conds), weakly)))
                    res.counters["partition_%s_%s" % ("ext" if weakly else "strict",
                                                      "rejected" if exp is False else "layers%d" % len(exp))] += 1
            if bases and not res.samples:
                conds = bases[len(bases) // 2]
                res.samples.append({"base": [forms.ctxt(c) for c in conds],
                                    "strict": ref_partition_keys([forms.sem(c, sig) for c in conds], full, False),
                                    "extended": ref_partition_keys([forms.sem(c, sig) for c in conds], full, True)})
        elif task[0] == "diag":
            from inference.consistency_diagnostics import consistency_diagnostics

            sig = scopes.SIG2
            flists = [[f] for f in FACTS] + [[f, g] for f in FACTS for g in FACTS]
            for conds in task[1]:
                for extended in (False, True):
                    cases = [(False, None, "none")]
                    for j, fl in enumerate(flists):
                        forms_ = ("str", "node") if len(fl) == 1 else (("str",) if j % 2 else ("node",))
                        for how in forms_:
                            cases.append((True, fl, how))
                    for ci, (uses_facts, fl, how) in enumerate(cases):
                        bb = drive.mkbb(sig, conds, alt_keys(ci, len(conds)))
                        kw = {}
                        if uses_facts:
                            kw["facts"] = [forms.txt(f) if how == "str" else forms.to_pysmt(f) for f in fl]
                        exp = ref_diag(sig, conds, fl or [], extended, uses_facts)
                        try:
                            d = consistency_diagnostics(bb, extended=extended, uses_facts=uses_facts, on_inconsistent="silent", **kw)
                            got = {k: d.get(k) for k in ("facts_consistent", "belief_base_consistent", "belief_base_weakly_consistent",
                                                         "combination_consistent", "combination_infinity_increase") if k in d}
                        except Exception as e:  # noqa: BLE001
                            got = drive.exc_obs(e)
                        res.evals += 1
                        dig.append(repr(got))
                        res.outcomes.add(repr(sorted(exp.items())))
                        if got != exp:
                            res.violation(self.id, "diagnostics", {"sig": sig, "conds": [forms.ctxt(c) for c in conds], "conds_f": conds,
                                          "extended": extended, "uses_facts": uses_facts, "facts": [forms.txt(f) for f in (fl or [])],
                                          "facts_f": fl, "how": how, "config": "diagnostics", "keys": alt_keys(ci, len(conds))}, exp, got)
                        elif uses_facts:
                            res.nontrivial.add(hash((tuple(conds), extended, tuple(fl), how)))
                        res.counters["diagnostics_cases"] += 1
        elif task[0] == "diag-history":
            # E-seq: ONE belief-base object goes through a sequence of diagnostics calls with different fact lists; every
            # call must answer as on a fresh object and must leave the caller's base untouched
            from inference.consistency_diagnostics import consistency_diagnostics

            sig = scopes.SIG2
            seqs = [[[a], [N(a)], [b]], [[A(a, b)], [BOT], [a]], [[b, a], [O(a, b)], [N(a), b]]]
            for conds in task[1]:
                for extended in (False, True):
                    for seq in seqs:
                        bb = drive.mkbb(sig, conds)
                        keys0 = list(bb.conditionals.keys())
                        for step, fl in enumerate(seq):
                            exp = ref_diag(sig, conds, fl, extended, True)
                            try:
                                d = consistency_diagnostics(bb, extended=extended, uses_facts=True, on_inconsistent="silent",
                                                            facts=[forms.to_pysmt(f) for f in fl])
                                got = {k: d.get(k) for k in exp if k in d}
                            except Exception as e:  # noqa: BLE001
                                got = drive.exc_obs(e)
                            res.evals += 1
                            dig.append(repr(got))
                            keys1 = list(bb.conditionals.keys())
                            if got != exp or keys1 != keys0:
                                res.violation(self.id, "diagnostics-history", {"sig": sig, "conds": [forms.ctxt(c) for c in conds], "conds_f": conds,
                                              "extended": extended, "fact_sequence": [[forms.txt(f) for f in x] for x in seq[:step + 1]],
                                              "seq_f": seq[:step + 1], "config": "diagnostics-history"}, {"flags": exp, "base_keys": keys0},
                                              {"flags": got, "base_keys": keys1})
                                break
                        else:
                            res.nontrivial.add(hash((tuple(conds), extended, repr(seq))))
                        res.counters["diagnostics_histories"] += 1
        else:
            q = drive.mkcond((b, a))
            for sig, conds, cls in task[1]:
                shared = {}     # ONE base object per configuration goes through both modes (extended first for even tasks)
                for weakly in ((True, False) if len(conds) % 2 == 0 else (False, True)):
                    must_refuse = cls in ("inconsistent", "empty") or (not weakly and cls != "strong")
                    for cfg, (system, pm) in drive.CONFIGS.items():
                        if cfg == "c" and weakly:
                            continue
                        bb = shared.setdefault(cfg, drive.mkbb(sig, conds))
                        if not must_refuse:
                            # an accepted call in this mode must not make the later call in the other mode accept / refuse wrongly
                            drive.construct_fails(bb, system, pm, weakly, q)
                            continue
                        table, exc = drive.construct_fails(bb, system, pm, weakly, q)
                        res.evals += 1
                        dig.append(repr((table, exc and exc[1])))
                        res.outcomes.add(exc[1] if exc else "answered")
                        res.counters["refusal_cases"] += 1
                        if exc is None:
                            res.violation(self.id, "not-refused", {"sig": sig, "conds": [forms.ctxt(c) for c in conds], "conds_f": conds,
                                          "weakly": weakly, "config": cfg, "cls": cls}, "raises, returns no table", {"table": table})
                        else:
                            res.nontrivial.add(hash((tuple(conds), weakly, cfg)))
        res.digest = dig
        return res

    def coverage_extra(self, agg):
        return {"bases_sig2": self.n2, "bases_sig3": self.n3, "diagnostics_bases": self.nd, "refusal_bases": self.nr}

    def replay(self, rec):
        c = rec["case"]
        conds = [opsem.tup(x) for x in c["conds_f"]]
        sig = c["sig"]
        if rec["kind"] == "partition":
            bb = drive.parse_bb(sig, conds) if c.get("via") == "parse" else drive.mkbb(sig, conds)
            got = impl_partitions(bb, c["weakly"])[0 if c["config"] == "consistency" else 1]
            exp = ref_partition_keys([forms.sem(x, sig) for x in conds], forms.allmask(sig), c["weakly"])
            return {"observed": got, "expected": exp, "violates": got != exp}
        if rec["kind"] == "diagnostics-history":
            r2 = self.run(("diag-history", [conds]))
            return {"observed": [v["observed"] for v in r2.violations[:2]], "violates": bool(r2.violations)}
        if rec["kind"] == "diagnostics":
            from inference.consistency_diagnostics import consistency_diagnostics

            fl = [opsem.tup(f) for f in (c["facts_f"] or [])]
            kw = {}
            if c["uses_facts"]:
                kw["facts"] = [forms.txt(f) if c["how"] == "str" else forms.to_pysmt(f) for f in fl]
            exp = ref_diag(sig, conds, fl, c["extended"], c["uses_facts"])
            try:
                d = consistency_diagnostics(drive.mkbb(sig, conds, c.get("keys")), extended=c["extended"], uses_facts=c["uses_facts"],
                                            on_inconsistent="silent", **kw)
                got = {k: d.get(k) for k in exp if k in d}
            except Exception as e:  # noqa: BLE001
                got = drive.exc_obs(e)
            return {"observed": got, "expected": exp, "violates": got != exp}
        system, pm = drive.CONFIGS[c["config"]]
        table, exc = drive.construct_fails(drive.mkbb(sig, conds), system, pm, c["weakly"], drive.mkcond((b, a)))
        return {"observed": {"table": table, "exc": exc}, "violates": exc is None}


CHECK = C06()
