#!/bin/bash
# tools/run_thorough.sh [ids...] : run thorough tiers one after the other, one summary line each; evidence goes to a scratch dir
cd "$(dirname "$0")/.." || exit 2
OUT=$(mktemp -d /tmp/vf-thorough-XXXXXX)
ids="$@"; [ -z "$ids" ] && ids="C06 C10 C15 C17 C20 C14 C19 C16 C18 C13 C05 C02 C01 C08 C09 C11 C12 C03 C04 C07"
for c in $ids; do
  s=$(date +%s)
  out=$(VERIF_EVIDENCE_DIR="$OUT" VERIF_REPLAY_DIR="$OUT" ./check $c --tier thorough 2>&1); rc=$?
  e=$(date +%s)
  echo "$c thorough rc=$rc wall=$((e-s))s $(echo "$out" | grep -E 'evaluations=' | tail -1 | cut -c1-150)"
  echo "$out" | grep -E '^(VIOLATION|HARNESS-ERROR|KNOWN-FINDING)' | cut -c1-250 | head -4
  echo "$out" | grep -E 'unlisted violation' | cut -c1-900 | head -1
done
rm -rf "$OUT"
