from .opcheck import OperatorCheck


class C05(OperatorCheck):
    id = "C05"
    cfgs = ("c",)
    maxn = {"quick": 3, "thorough": 4}
    b3 = {
        "quick": [("L3", 3, 1, ("T21", 0))],
        "thorough": [("L3", 4, 1, ("T21", 0)), ("L3T", 3, 1, (2, 2)), ("L3PLUS", 3, 1, (2, 2))],
    }
    rule = ("E-in: B1 x Q2, B2 structure representatives x 89 queries, B3(3) structure representatives x type-level + "
            "literal queries (n <= 3 so the impact box {0..2^(n-1)}^n is enumerated completely; thorough n <= 4); "
            "oracle: skeptical inference over every c-representation in the box, by brute force over worlds.")
    assumptions = ["reference model vf/ref.py; finite impact box {0..2^(n-1)}^n (Komo & Beierle bound)",
                   "inputs outside the named scopes are not covered by this check"]


CHECK = C05()
