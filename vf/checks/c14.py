"""C14 time budgets never produce an unflagged wrong answer (E-env, deviation-bounded exploration)."""
import itertools

from .. import drive, env, forms, opsem, sched, scopes
from ..forms import A, N, O, V
from ..runner import Check, Result
from .c13 import EXT, STRICT, pick_bases

a, b, c = V("a"), V("b"), V("c")
QUERIES = [(1, (b, a)), (2, (c, A(a, b))), (3, (N(c), O(a, b)))]
T = env.T_BUDGET
BUDGETS = [dict(total_timeout=t, preprocessing_timeout=p, inference_timeout=i) for t in (0, T) for p in (0, T) for i in (0, T)]


def mkq(keys, queries=None):
    from inference.queries import Queries

    d = dict(queries or QUERIES)
    return Queries({k: drive.mkcond(d[k]) for k in keys})


# ---------------------------------------------------------------------------------------------------------
# second family: four-atom bases with several layers, queries SELECTED by the reference model for what the enumeration loops
# do on them (several incomparable correction sets on one side; a tie in the top layer, so the recursion descends), and a later
# call that asks ALL queries of the first call again. Selection only - the oracle stays "flagged, or as without budgets".
d = V("d")
BASES4 = [
    [(c, b), (N(c), a), (b, a), (d, b)],              # penguin shape: two layers
    [(b, a), (c, a), (d, a)],                          # one layer, independent consequents: many incomparable correction sets
    [(c, b), (N(c), a), (b, a), (c, A(a, d))],         # three layers
]


def _cands4():
    lits = [V(x) for x in scopes.SIG4] + [N(V(x)) for x in scopes.SIG4]
    at = lambda l: l[1] if l[0] == "var" else l[1][1]   # noqa: E731
    out = list(scopes.literal_queries4())
    for l in lits:
        for m in lits:
            for k, j in itertools.combinations(lits, 2):
                if len({at(l), at(m), at(k), at(j)}) == 4:
                    out.append((l, A(m, O(k, j))))
    for l in lits:
        for m, k, j in itertools.combinations(lits, 3):
            if len({at(l), at(m), at(k), at(j)}) == 4:
                out.append((l, A(m, A(k, j))))
    return out


def select_queries(sig, conds, weakly):
    """Three queries per base: one with >= 2 incomparable minimal falsification sets on one side in the top layer, one whose two
    sides tie in the top layer (the recursion descends), and the first remaining candidate with a non-vacuous answer."""
    from .. import ref

    full = forms.allmask(sig)
    sems = [forms.sem(x, sig) for x in conds]
    rb = ref.RefBase(sems, full)
    part = rb.fin
    top = part[-1]
    fs = lambda w: frozenset(i for i in top if sems[i][1] >> w & 1)   # noqa: E731
    multi, deep, plain = [], [], []
    for q in _cands4():
        v, f = forms.sem(q, sig)
        if not v or not f:
            continue
        sv = {fs(w) for w in forms.bits(v)}
        sf = {fs(w) for w in forms.bits(f)}
        mv = {x for x in sv if not any(y < x for y in sv)}
        mf = {x for x in sf if not any(y < x for y in sf)}
        # rank: (several incomparable sets AND a clause-shaped antecedent first), (tie on a NON-empty set first)
        if len(mv) >= 2 or len(mf) >= 2:
            # best: the enumeration must be COMPLETE for the right verdict (dropping one verifying set flips the top-layer test)
            sub = lambda vs: all(any(x <= y for x in vs) for y in mf)   # noqa: E731
            critical = len(mv) >= 2 and sub(mv) and any(not sub(mv - {x}) for x in mv)
            multi.append((0 if critical else 1, 0 if q[1][0] == "and" else 1, len(multi), q))
        if (mv & mf) and len(part) >= 2:
            deep.append((0 if any(x for x in mv & mf) else 1, len(deep), q))
        plain.append(q)
    qs = []
    for lst in (sorted(deep), sorted(multi)):
        for *_r, q in lst:
            if q not in qs:
                qs.append(q)
                break
    for q in plain:
        if len(qs) >= 3:
            break
        if q not in qs:
            qs.append(q)
    return [(i + 1, q) for i, q in enumerate(qs)]


def rows_of(df):
    out = []
    for i in range(len(df)):
        r = df.iloc[i]
        res = r["result"]
        out.append((int(r["index"]), bool(res) if type(res).__name__ in ("bool", "bool_") else repr(res),
                    bool(r["inference_timed_out"]), bool(r["preprocessing_timed_out"])))
    return out


def execute(conds, cfg, weakly, budget, multi, chooser, sig=None, queries=None, calls=((1, 2, 3), (2,)), hash_order=1):
    """One execution: a call with three queries and a later call (with one of them, or with all of them again), on the same
    manager, under the environment answers dictated by `chooser`."""
    sig = sig or scopes.SIG3
    from inference.inference_manager import InferenceManager

    system, pm = drive.CONFIGS[cfg]
    e = env.Env(chooser, with_preptime=bool(budget["total_timeout"]), hash_order=hash_order)
    obs = []
    with env.installed(e):
        mgr = InferenceManager(drive.mkbb(sig, conds), system, pmaxsat_solver=pm or "rc2", weakly=weakly)
        with sched.patched_mp(sched.Chooser(), extra_choosers=[chooser]):
            for keys in calls:
                try:
                    df = mgr.inference(mkq(keys, queries), multi_inference=multi, **budget)
                    obs.append(rows_of(df))
                except BaseException as ex:  # noqa: BLE001
                    if isinstance(ex, (KeyboardInterrupt, SystemExit, MemoryError, sched.ReplayDiverged)):
                        raise
                    obs.append(drive.exc_obs(ex))
    return obs, list(e.events)


def judge(obs, base_obs):
    probs = []
    for ci, (rows, brows) in enumerate(zip(obs, base_obs)):
        if drive.is_exc(rows):
            probs.append("call %d: %s escaped: %s" % (ci + 1, rows[1], rows[2][:60]))
            continue
        if len(rows) != len(brows):
            probs.append("call %d: %d rows, %d expected" % (ci + 1, len(rows), len(brows)))
            continue
        for (k, res, t_out, p_out), (bk, bres, _bt, _bp) in zip(rows, brows):
            if k != bk:
                probs.append("call %d: row key %r, expected %r" % (ci + 1, k, bk))
            if t_out or p_out:
                if res is not False:
                    probs.append("call %d key %r: flagged timed out but answer %r" % (ci + 1, k, res))
            elif res is not bres:
                probs.append("call %d key %r: unflagged answer %r, without budgets %r" % (ci + 1, k, res, bres))
    return probs


class C14(Check):
    id = "C14"
    level = "fault_enumeration"
    rule = ("E-env, deviation-bounded. Budgets are set to T=1000 s so real time never fires; the explorer answers every "
            "observation point itself: Deadline.expired()/remaining_ms()/remaining_seconds() -> expired (sticky), "
            "z3.Optimize.check() -> unknown without model / unknown with a feasible non-optimised model / unknown forever, the "
            "clock read ending the preprocessing measurement -> +T / +2T. Per (base, operator, back-end, mode, budget "
            "configuration in {0,T}^3, sequential / parallel double): the 0-deviation run (counts N observation points, "
            "including those inside forked workers), then EVERY single deviation at every point (thorough: every pair). Each "
            "execution = a call with 3 queries + a later call with 1 on the same manager. Second family: three four-atom bases "
            "(penguin shape, one layer with independent consequents, three layers) with queries selected by the reference model "
            "(a tie in the top layer so the recursion descends; >= 2 incomparable correction sets on one side; a plain one), the "
            "later call asks ALL queries again. Oracle: no exception escapes; every "
            "row is flagged (inference_timed_out or preprocessing_timed_out, answer False) or carries the answer of a run "
            "without budgets; own keys. distinct_nontrivial = distinct (case, deviation) executions in which a deviation "
            "actually changed the observation (some row flagged).")
    assumptions = ["the z3 back-ends iterate over sets of Conditional_z3 objects hashed by address; the harness owns that order "
                   "(small integer hashes in order of first use; ascending, and for the four-atom family also descending) - a "
                   "replayed prefix that does not fit its execution is a harness error (exit 2), never a violation",
                   "expiry is modelled at the granularity of the code's own observations of the deadline / solver verdicts; "
                   "z3's internal timeout is never armed (Optimize.set(timeout) is recorded, not forwarded)",
                   "operators that never look at the deadline have 0 observation points (reported, not a violation)"]
    audit_tasks = 4

    def tasks(self):
        quick = self.tier == "quick"
        out = []
        sb = pick_bases(self.seed, False, 2 if quick else 3)
        wb = pick_bases(self.seed, True, 1)
        for weakly, bases in ((False, sb), (True, wb)):
            for bi, conds in enumerate(bases):
                for cfg in (EXT if weakly else STRICT):
                    for budget in BUDGETS:
                        out.append((conds, cfg, weakly, budget, False))
                    if bi == 0:
                        for budget in (BUDGETS[7], BUDGETS[1]):
                            out.append((conds, cfg, weakly, budget, True))
        # four-atom family (see select_queries): per-query budget only / total budget only, sequential
        for conds in BASES4:
            for cfg in STRICT:
                if cfg in ("p", "z"):
                    continue   # they never look at the deadline
                for budget in ((BUDGETS[1], BUDGETS[4]) if quick else (BUDGETS[1], BUDGETS[4], BUDGETS[7])):
                    for order in ((1, -1) if cfg.endswith("z3") else (1,)):   # iteration order of the z3 back-ends' sets
                        out.append((conds, cfg, False, budget, False, "four", order))
        return out

    def run(self, task):
        res = Result()
        conds, cfg, weakly, budget, multi = task[:5]
        four = len(task) > 5
        sig = scopes.SIG4 if four else scopes.SIG3
        queries = select_queries(sig, conds, weakly) if four else QUERIES
        calls = (tuple(k for k, _ in queries),) * 2 if four else ((1, 2, 3), (2,))
        kw = dict(sig=sig, queries=queries, calls=calls, hash_order=task[6] if four else 1)
        case0 = {"hash_order": kw["hash_order"], "sig": sig, "conds": [forms.ctxt(x) for x in conds], "conds_f": conds, "config": cfg, "weakly": weakly,
                 "budget": budget, "multi": multi, "tname": "multi" if multi else "seq", "queries": [forms.ctxt(q) for _k, q in queries],
                 "queries_f": [[k, q] for k, q in queries], "calls": [list(x) for x in calls]}
        base_obs, _ = execute(conds, cfg, weakly, dict(total_timeout=0, preprocessing_timeout=0, inference_timeout=0), False, sched.Chooser(), **kw)
        maxdev = 1 if self.tier == "quick" else 2
        npoints = None
        dig = []
        for choices, trace, (obs, events) in sched.explore(lambda ch: execute(conds, cfg, weakly, budget, multi, ch, **kw), maxdev=maxdev):
            res.evals += 1
            if npoints is None:
                npoints = len(trace)
                res.counters["observation_points_%s" % cfg] += npoints
            dig.append(repr(obs))
            res.outcomes.add(repr(obs))
            probs = judge(obs, base_obs)
            dev = [(i, trace[i][0], ch) for i, ch in enumerate(choices) if ch]
            # pure per-query budget (no total, no preprocessing budget): every query has its own deadline, so ONE observed
            # expiry can flag at most one row per call; the rows of the other queries must be answered as without budgets
            if (not probs and len(dev) == 1 and dev[0][1][0] == "deadline" and not budget["total_timeout"]
                    and not budget["preprocessing_timeout"] and budget["inference_timeout"]):
                for ci, rows in enumerate(obs):
                    if not drive.is_exc(rows) and sum(1 for r in rows if r[2] or r[3]) > 1:
                        probs.append("call %d: one expired per-query deadline flagged %d rows" % (ci + 1, sum(1 for r in rows if r[2] or r[3])))
            if probs:
                res.violation(self.id, "budget", dict(case0, choices=choices, deviations=[[i, list(l), ch] for i, l, ch in dev],
                              point=dev[0][1][0] if dev else "none"), "flagged-or-same rows, no exception",
                              {"calls": obs, "problems": probs[:4]})
            elif dev and any((not drive.is_exc(r)) and any(x[2] or x[3] for x in r) for r in obs):
                res.nontrivial.add(hash((tuple(conds), cfg, weakly, repr(budget), multi, tuple(choices))))
            if dev:
                res.counters["deviation_executions"] += 1
        if npoints == 0:
            res.counters["cases_without_observation_points"] += 1
        res.digest = dig
        res.samples.append({"base": case0["conds"], "queries": case0["queries"], "calls": case0["calls"], "config": cfg, "mode": "extended" if weakly else "strict", "budget": budget,
                            "parallel": multi, "observation_points": npoints, "executions": res.evals,
                            "distinct_observations": len(res.outcomes)})
        return res

    def coverage_extra(self, agg):
        return {"budget_configurations": BUDGETS, "max_deviations": 1 if self.tier == "quick" else 2}

    def replay(self, rec):
        cs = rec["case"]
        conds = [opsem.tup(x) for x in cs["conds_f"]]
        kw = {}
        if "queries_f" in cs:
            kw = dict(sig=cs["sig"], queries=[(k, opsem.tup(q)) for k, q in cs["queries_f"]], calls=[tuple(x) for x in cs["calls"]],
                      hash_order=cs.get("hash_order", 1))
        base_obs, _ = execute(conds, cs["config"], cs["weakly"], dict(total_timeout=0, preprocessing_timeout=0, inference_timeout=0),
                              False, sched.Chooser(), **kw)
        obs, events = execute(conds, cs["config"], cs["weakly"], cs["budget"], cs["multi"], sched.Chooser(cs["choices"]), **kw)
        probs = judge(obs, base_obs)
        return {"observed": {"calls": obs, "problems": probs}, "violates": bool(probs)}


CHECK = C14()
