import itertools, time
import ref
from ref import *
a,b=V("a"),V("b")
F16 = [TOP, BOT, a, N(a), b, N(b), A(a, b), A(a, N(b)), A(N(a), b), A(N(a), N(b)),
       O(a, b), O(a, N(b)), O(N(a), b), O(N(a), N(b)), O(A(a, b), A(N(a), N(b))), O(A(a, N(b)), A(N(a), b))]
W=list(ref.worlds(["a","b"])); ALL=15
sem_all = sorted({ref.sem((B,A_),W) for B in F16 for A_ in F16})
print(len(sem_all))
t=time.time(); n=0; bad=0
bases=[[s] for s in sem_all]+[list(x) for x in itertools.combinations(sem_all,2)]
for sems in bases:
    for ext in (False,True):
        if not ext:
            p=ref.partition(sems,ALL)
            if p is False: continue
            for q in sem_all:
                tr=ref.trivial(q,ALL)
                r1=ref.ref_p_strict(sems,ALL,q)
                r2=True if tr is True else ref.ref_p_models(sems,4,q,False)
                n+=1
                if r1!=r2: bad+=1; print("STRICT DIFF",sems,q,r1,r2) if bad<5 else None
        else:
            sp=ref.split_ext(sems,ALL)
            if sp is False: continue
            part,inf,feas=sp
            fin=[sems[i] for l in part for i in l]
            for q in sem_all:
                tr=ref.trivial(q,feas)
                if tr is not None: r1=tr
                else:
                    fs=[(v&feas,f&feas) for v,f in fin]+[(q[1]&feas,q[0]&feas)]
                    r1=ref.partition(fs,ALL,feasible=feas) is False
                r2=ref.ref_p_models(sems,4,q,True)
                n+=1
                if r1!=r2: bad+=1; print("EXT DIFF",sems,q,r1,r2,sp) if bad<8 else None
print("checked",n,"bad",bad,"time",round(time.time()-t,1))
