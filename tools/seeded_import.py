#!/usr/bin/env python3
"""tools/seeded_import.py <round-dir> <round-no> <spec.json> : copy confirmed sub-agent changes (<round-dir>/<P>/out/<k>, confirmation in
<round-dir>/results/<P>-<k>.txt written by tools/round_eval.sh) to seeded/r<round>-<P>-<k>/ with a meta.json. spec.json maps "<P>-<k>" to
{"caught_by": [...], "missed_by_first_version_of": [...], "strengthening": "...", "note": "..."}; entries not confirmed are refused."""
import json, os, re, shutil, sys
HERE = os.path.dirname(os.path.dirname(os.path.abspath(__file__)))
rd, rn, spec = sys.argv[1], int(sys.argv[2]), json.load(open(sys.argv[3]))
for key, det in spec.items():
    P, k = key.split("-")
    src = os.path.join(rd, P, "out", k)
    txt = open(os.path.join(rd, "results", key + ".txt")).read()
    m = re.search(r"RESULT patch=ok demo_clean_rc=(\d+) demo_patched_rc=(\d+) tests='=* ?([^=']*?) ?=*'", txt)
    if not m or m.group(1) != "0" or m.group(2) == "0" or "failed" in m.group(3) or "passed" not in m.group(3):
        print("NOT CONFIRMED", key, m.groups() if m else None)
        continue
    dst = os.path.join(HERE, "seeded", "r%d-%s" % (rn, key))
    os.makedirs(dst, exist_ok=True)
    for f in ("patch.diff", "demo.py", "notes.md"):
        shutil.copy(os.path.join(src, f), os.path.join(dst, f))
    patch = open(os.path.join(src, "patch.diff")).read()
    files = sorted(set(re.findall(r"^\+\+\+ b/(\S+)", patch, re.M)))
    notes = " ".join(open(os.path.join(src, "notes.md")).read().split())
    meta = {"id": "r%d-%s" % (rn, key), "breaks_property": P, "round": rn,
            "source": "written by a fresh sub-agent that saw only the property text and its own scratch worktree of /repo (round %d: two changes per agent)" % rn,
            "files_changed": files, "needs_to_manifest": notes[:900],
            "confirmed": {"patch_applies": True, "demo_exit_on_unchanged_tree": 0, "demo_exit_on_changed_tree": int(m.group(2)),
                          "repository_test_suite_with_change": m.group(3),
                          "how": "tools/seeded_confirm.sh patch.diff demo.py (scratch worktree of /repo HEAD under /tmp, PYTHONPATH pointing at it, removed afterwards)"},
            "detection": {x: y for x, y in det.items() if y},
            "detection_how": "tools/seeded_eval.sh patch.diff <check ids> (scratch worktree with the change, quick tier, VERIF_REPO pointing at it; exit 1 + VIOLATION lines = caught)"}
    json.dump(meta, open(os.path.join(dst, "meta.json"), "w"), indent=1)
    print("imported", meta["id"], det["caught_by"])
