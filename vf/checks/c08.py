"""C08 inclusions p <= Z <= W <= lex and p <= c <= W — differential, no oracle, any size."""
import os

from .. import corpus, drive, forms, opsem, scopes
from ..runner import Check, Result

STRICT = ("p", "z", "w-rc2", "w-z3", "lex-rc2", "lex-z3", "c")
EXT = ("p", "z", "w-rc2", "w-z3", "lex-rc2", "lex-z3")
# (smaller, larger): whatever `smaller` infers, `larger` infers
CHAIN = [("p", "z"), ("z", "w-rc2"), ("z", "w-z3"), ("w-rc2", "lex-rc2"), ("w-rc2", "lex-z3"), ("w-z3", "lex-rc2"),
         ("w-z3", "lex-z3"), ("p", "c"), ("c", "w-rc2"), ("c", "w-z3")]
C_MAX_CONDS = 20   # c-inference preprocessing beyond this size is skipped (reported)


def check_inclusions(res, prop, answers, describe):
    """answers: {cfg: [bool|EXC]} over the same query list; describe(i) -> case dict for query i."""
    n = len(next(iter(answers.values())))
    for i in range(n):
        for lo, hi in CHAIN:
            if lo not in answers or hi not in answers:
                continue
            x, y = answers[lo][i], answers[hi][i]
            if drive.is_exc(x) or drive.is_exc(y):
                res.counters["pairs_skipped_exception"] += 1
                continue
            res.evals += 1
            res.outcomes.add((lo, hi, x, y))
            if x and not y:
                case = describe(i)
                case["config"] = "%s<=%s" % (lo, hi)
                res.violation(prop, "inclusion", case, "%s True implies %s True" % (lo, hi), {lo: x, hi: y})
            elif y and not x:
                res.counters["strict_inclusion_witnesses_%s<%s" % (lo, hi)] += 1
                res.nontrivial.add(hash((describe(i)["base"], describe(i)["query"], describe(i)["weakly"], lo, hi)))
            elif x and y:
                res.counters["both_true"] += 1


class C08(Check):
    id = "C08"
    level = "exploration"
    rule = ("E-in, differential (no reference model consulted): all operator/back-end combinations are asked the same "
            "(base, query) and every implication of the chain p<=Z<=W(rc2,z3)<=lex(rc2,z3), p<=c<=W is checked on the "
            "answers. Spaces: (i) structure representatives of <=4-subsets of the 24 literal conditionals over 3 atoms, "
            "both modes, 72 literal queries plus the reference-selected tie-rich type-level queries; (ii) shipped corpora: birds/gen/AO knowledge bases with their query files, "
            "the 484 two-atom representatives, random_large families 6_6..20_20 (quick: 3 bases per family chosen by the "
            "seed) with their complete query files plus all 48 literal queries (l|l') over the first four atoms, strict "
            "and extended mode. distinct_nontrivial = distinct (base, query, mode, pair) where the inclusion is strict "
            "(larger operator infers, smaller does not).")
    assumptions = ["compares the implementation with itself; correctness of single answers is C01-C07's business",
                   "rows where an operator raises are counted (pairs_skipped_exception) and not judged here"]
    audit_tasks = 3

    def tasks(self):
        tier, seed = self.tier, self.seed
        quick = tier == "quick"
        out = []
        self.stats = {}
        for weakly, want in ((False, ("strong",)), (True, ("weak-finite", "weak-nofinite"))):
            reps, st = scopes.structural_scope(scopes.L3, scopes.SIG3, 4, want, seed + 1, 1)
            self.stats["B3(4)-%s" % ("ext" if weakly else "strict")] = st
            for conds, cls in reps:
                out.append(("small", opsem.make_task(scopes.SIG3, conds, weakly, EXT if weakly else STRICT, ("tie",), cls=cls,
                                                     scope="B3(4)")))
        for bbp, qp in corpus.named_bases():
            out.append(("file", bbp, qp, False))
            out.append(("file", bbp, qp, True))
        for i in (range(1, 485, 12) if quick else range(1, 485)):
            q484 = os.path.join(corpus.examples_dir(), "484_inference_relations_representatives",
                                "484_inference_relations_representatives_query.cl")
            out.append(("file", corpus.rep484((i + seed) % 484 + 1), q484, False))
        fams = corpus.SMALL_FAMILIES if quick else corpus.SMALL_FAMILIES + corpus.LARGE_FAMILIES
        per = 3 if quick else 100
        for fam in fams:
            for j in range(per):
                idx = (seed * per + j) % 100
                bbp, qp = corpus.random_large(fam, idx)
                out.append(("file", bbp, qp, False))
                out.append(("file", bbp, qp, True))
        # heavy tasks first (better load balance)
        out.sort(key=lambda t: 0 if t[0] == "file" and "random_large" in t[1] else 1)
        return out

    def run(self, task):
        res = Result()
        if task[0] == "small":
            t = task[1]
            rb, qs, answers = opsem.run_impl(t)
            base = tuple(forms.ctxt(c) for c in t["conds"])

            def describe(i):
                return {"base": base, "query": forms.ctxt(qs[i][0]), "weakly": t["weakly"], "source": "B3(4)",
                        "conds_f": t["conds"], "query_f": qs[i][0], "sig": t["sig"]}
            check_inclusions(res, self.id, answers, describe)
            res.digest = sorted((k, [repr(x) for x in v]) for k, v in answers.items())
            res.counters["bases_small"] += 1
            return res
        _k, bbp, qp, weakly = task
        bb = corpus.load_bb(bbp)
        qconds = []
        if qp:
            try:
                qconds += corpus.load_queries(qp)
            except BaseException as e:  # noqa: BLE001
                res.counters["query_files_unparsable"] += 1
        qconds += corpus.literal_queries(bb.signature, 4)
        cfgs = EXT if weakly else STRICT
        answers = {}
        for cfg in cfgs:
            if cfg == "c" and len(bb.conditionals) > C_MAX_CONDS:
                res.counters["c_inference_skipped_size"] += 1
                continue
            system, pm = drive.CONFIGS[cfg]
            a = drive.ask(corpus.load_bb(bbp), system, pm, weakly, qconds)
            if all(drive.is_exc(x) and x[1] == "AssertionError" for x in a):
                res.counters["bases_refused_%s" % ("ext" if weakly else "strict")] += 1
                res.digest = "refused"
                return res
            answers[cfg] = a
        rel = os.path.relpath(bbp, corpus.examples_dir())

        def describe(i):
            return {"base": rel, "query": str(qconds[i]), "weakly": weakly, "source": "corpus", "bb_file": rel,
                    "query_index": i, "query_file": os.path.relpath(qp, corpus.examples_dir()) if qp else None}
        check_inclusions(res, self.id, answers, describe)
        res.counters["bases_corpus_%s" % ("ext" if weakly else "strict")] += 1
        res.extra["atoms"] = len(bb.signature)
        res.digest = sorted((k, [repr(x) for x in v]) for k, v in answers.items())
        if not res.samples:
            res.samples.append({"base": rel, "mode": "extended" if weakly else "strict", "queries": len(qconds),
                                "atoms": len(bb.signature), "conditionals": len(bb.conditionals),
                                "true_counts": {k: sum(1 for x in v if x is True) for k, v in answers.items()}})
        return res

    def merge(self, agg, r):
        agg.extra["max_atoms"] = max(agg.extra.get("max_atoms", 0), r.extra.get("atoms", 0))

    def coverage_extra(self, agg):
        return {"scope_stats": self.stats, "max_atoms_in_a_base": agg.extra.get("max_atoms", 0)}

    def replay(self, rec):
        c = rec["case"]
        lo, hi = c["config"].split("<=")
        if c["source"] == "corpus":
            bbp = os.path.join(corpus.examples_dir(), c["bb_file"])
            bb = corpus.load_bb(bbp)
            qconds = []
            if c.get("query_file"):
                try:
                    qconds += corpus.load_queries(os.path.join(corpus.examples_dir(), c["query_file"]))
                except BaseException:  # noqa: BLE001
                    pass
            qconds += corpus.literal_queries(bb.signature, 4)
            q = qconds[c["query_index"]]
            got = {}
            for cfg in (lo, hi):
                system, pm = drive.CONFIGS[cfg]
                got[cfg] = drive.ask(corpus.load_bb(bbp), system, pm, c["weakly"], [q])[0]
        else:
            t = opsem.make_task(c["sig"], c["conds_f"], c["weakly"], [lo, hi], ("list", [c["query_f"]]))
            _rb, _qs, answers = opsem.run_impl(t)
            got = {k: v[0] for k, v in answers.items()}
        return {"observed": got, "violates": got[lo] is True and got[hi] is False}


CHECK = C08()
