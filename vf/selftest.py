"""Reference-model self-tests (run by setup.sh): the model is validated against itself before it is trusted."""
import itertools
import sys
import time

from . import forms, ref, scopes


def main():
    t0 = time.time()
    sig = scopes.SIG2
    full = forms.allmask(sig)
    nW = 4
    classes = scopes.semclass_reps(scopes.C2, sig)
    sems_all = [forms.sem(c, sig) for c in classes]
    n = 0
    # (1) tolerance-based p-entailment == "accepted by every ranking model" on all 1-conditional bases over the 81
    #     semantic classes x 81 semantic queries (strict and extended)
    for s in sems_all:
        rb = ref.RefBase([s], full)
        for q in sems_all:
            if rb.cls == "strong":
                a = rb.answer("p-entailment", q, False)
                b = True if ref.trivial(q, full) is True else ref.ref_p_models([s], nW, q)
                assert a == b, ("strict p", s, q, a, b)
                n += 1
            if rb.feas is not None:
                a = rb.answer("p-entailment", q, True)
                b = ref.ref_p_models([s], nW, q, extended=True)
                assert a == b, ("extended p", s, q, a, b)
                n += 1
    # (2) inclusions inside the reference model on a slice of pairs
    for s1, s2 in itertools.islice(itertools.combinations(sems_all, 2), 0, None, 7):
        rb = ref.RefBase([s1, s2], full)
        if rb.feas is None:
            continue
        for q in sems_all[::3]:
            for ext in (False, True):
                if not ext and rb.cls != "strong":
                    continue
                p, z, w, l = (rb.answer(x, q, ext) for x in ("p-entailment", "system-z", "system-w", "lex_inf"))
                assert (not p or z) and (not z or w) and (not w or l), (s1, s2, q, ext, p, z, w, l)
                if not ext:
                    c = rb.answer("c-inference", q, False)
                    assert (not p or c) and (not c or w), (s1, s2, q, p, c, w)
                n += 1
    # (3) strongly consistent: extended == strict in the reference
    for s1, s2 in itertools.islice(itertools.combinations(sems_all, 2), 0, None, 11):
        rb = ref.RefBase([s1, s2], full)
        if rb.cls != "strong":
            continue
        for q in sems_all[::5]:
            for x in ("p-entailment", "system-z", "system-w", "lex_inf"):
                assert rb.answer(x, q, False) == rb.answer(x, q, True)
                n += 1
    # (4) formula machinery
    for f in scopes.F2 + scopes.F2S:
        m = forms.mask(f, sig)
        assert forms.mask(forms.dnf(sig, m), sig) == m and forms.mask(forms.cnf(sig, m), sig) == m
        for w in range(4):
            assert forms.ev(f, forms.world_assignment(sig, w)) == bool(m >> w & 1)
    print("reference self-test ok: %d comparisons in %.1fs" % (n, time.time() - t0))
    return 0


if __name__ == "__main__":
    sys.exit(main())
