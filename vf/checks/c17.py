"""C17 the c-representation ranking object is a minimal model of the base; the Pareto front enumeration is exact."""
import itertools

from .. import drive, forms, opsem, ref, scopes
from ..runner import Check, Result

SOLVER_TIMEOUT_MS = 20000
CHECK_LIMIT = 400   # Optimize.check() calls after which an enumeration is declared non-terminating


class NonTermination(Exception):
    pass


class counted_checks:
    """Counts z3.Optimize.check() calls and cuts a run that exceeds the horizon (deterministic termination verdict)."""

    def __enter__(self):
        import z3

        self.z3 = z3
        self.real = z3.Optimize.check
        self.n = 0

        def check(opt, *a):
            self.n += 1
            if self.n > CHECK_LIMIT:
                raise NonTermination("more than %d Optimize.check() calls" % CHECK_LIMIT)
            # a single check() that never returns (e.g. an objective that is unbounded below) must not hang the explorer:
            # the scopes here take milliseconds, so a 20 s solver timeout cannot cut a legitimate run short
            opt.set("timeout", SOLVER_TIMEOUT_MS)
            r = self.real(opt, *a)
            if r == self.z3.unknown:
                raise NonTermination("Optimize.check() gave up after %d ms (objective unbounded / no progress)" % SOLVER_TIMEOUT_MS)
            return r
        z3.Optimize.check = check
        return self

    def __exit__(self, *a):
        self.z3.Optimize.check = self.real
        return False


def is_crep(sems, full, eta):
    nW = full.bit_length()
    k = [sum(eta[i] for i in range(len(sems)) if sems[i][1] >> w & 1) for w in range(nW)]
    for v, f in sems:
        if not v:
            return None
        if f and not min(k[w] for w in forms.bits(v)) < min(k[w] for w in forms.bits(f)):
            return None
    return k


def box_creps(sems, full, bound):
    return [eta for eta in itertools.product(range(bound + 1), repeat=len(sems)) if is_crep(sems, full, eta) is not None]


def check_object(res, prop, sig, conds, queries, via):
    from inference.preocf import PreOCF

    full = forms.allmask(sig)
    sems = [forms.sem(x, sig) for x in conds]
    n = len(conds)
    case = {"sig": sig, "conds": [forms.ctxt(x) for x in conds], "conds_f": conds, "config": "object", "via": via,
            "unfalsifiable_in_base": any(s[1] == 0 for s in sems)}
    res.evals += 1
    try:
        bb = drive.parse_bb(sig, conds) if via == "parse" else drive.mkbb(sig, conds)
        if via == "api-reversed":
            # the parser's keys 1..n, but inserted into the dict in descending order (dict order is not key order)
            from inference.belief_base import BeliefBase

            items = list(drive.mkbb(sig, conds).conditionals.items())
            bb = BeliefBase(list(sig), dict(reversed(items)), "kb")
        with counted_checks():
            obj = PreOCF.init_random_min_c_rep(bb)
        impacts = list(obj.save_impacts())
        ranks = dict(obj.compute_all_ranks())
    except NonTermination as e:
        res.violation(prop, "construct-nontermination", case, "a ranking object", str(e))
        return None
    except BaseException as e:  # noqa: BLE001
        if isinstance(e, (KeyboardInterrupt, SystemExit, MemoryError)):
            raise
        res.violation(prop, "construct", case, "a ranking object", drive.exc_obs(e))
        return None
    res.outcomes.add(tuple(impacts))
    if len(impacts) != n or any((not isinstance(x, int)) or isinstance(x, bool) or x < 0 for x in impacts):
        res.violation(prop, "impacts", case, "non-negative integers, one per conditional", impacts)
        return None
    k = is_crep(sems, full, impacts)
    exp_ranks = {forms.world_str(sig, w): sum(impacts[i] for i in range(n) if sems[i][1] >> w & 1) for w in range(1 << len(sig))}
    if ranks != exp_ranks:
        res.violation(prop, "ranks", dict(case, impacts=impacts), exp_ranks, ranks)
        return None
    if k is None:
        res.violation(prop, "not-a-model", dict(case, impacts=impacts), "ranking accepts every conditional of the base", ranks)
        return None
    for x in conds:
        acc = obj.conditional_acceptance(drive.mkcond(x))
        res.evals += 1
        if acc is not True:
            res.violation(prop, "base-conditional-rejected", dict(case, impacts=impacts, query=forms.ctxt(x)), True, acc)
    # Pareto minimality: every vector below the impacts, enumerated completely
    below = [eta for eta in itertools.product(*[range(x + 1) for x in impacts]) if list(eta) != impacts and is_crep(sems, full, eta) is not None]
    res.evals += 1
    res.counters["vectors_below_enumerated"] += 1
    for x in impacts:
        res.counters["vectors_below_enumerated"] += 0
    if below:
        res.violation(prop, "not-pareto-minimal", dict(case, impacts=impacts), "no c-representation below the impact vector", below[:3])
    elif any(impacts):
        res.nontrivial.add(hash((tuple(conds), "min", tuple(impacts))))
    # queries c-inference (implementation AND reference) answers True are accepted
    if queries:
        rb = ref.RefBase(sems, full)
        qs = [q for q in queries if (forms.sem(q, sig)[0] | forms.sem(q, sig)[1])]
        ans = drive.ask(drive.mkbb(sig, conds), "c-inference", "rc2", False, [drive.mkcond(q) for q in qs])
        for q, x in zip(qs, ans):
            if x is True and rb.answer("c-inference", forms.sem(q, sig), False) is True:
                acc = obj.conditional_acceptance(drive.mkcond(q))
                res.evals += 1
                if acc is not True:
                    res.violation(prop, "c-inferred-but-rejected", dict(case, impacts=impacts, query=forms.ctxt(q), query_f=q), True, acc)
                else:
                    res.nontrivial.add(hash((tuple(conds), "q", q)))
    return impacts


def check_front(res, prop, sig, conds, impacts_hint):
    from inference.c_revision import c_inference_pareto_front

    full = forms.allmask(sig)
    sems = [forms.sem(x, sig) for x in conds]
    case = {"sig": sig, "conds": [forms.ctxt(x) for x in conds], "conds_f": conds, "config": "front"}
    res.evals += 1
    try:
        with counted_checks() as cc:
            front = c_inference_pareto_front(drive.mkbb(sig, conds))
        got = sorted(tuple(int(x) for x in v) for v in front)
    except NonTermination as e:
        res.violation(prop, "front-nontermination", case, "terminates", str(e))
        return
    except BaseException as e:  # noqa: BLE001
        if isinstance(e, (KeyboardInterrupt, SystemExit, MemoryError)):
            raise
        res.violation(prop, "front-exception", case, "a list of vectors", drive.exc_obs(e))
        return
    bound = max([ref.crep_bound(len(conds))] + [x for v in got for x in v] + list(impacts_hint or [])) + 1
    exp = sorted(ref.pareto_min(box_creps(sems, full, bound)))
    res.outcomes.add(len(exp))
    if len(got) != len(set(got)):
        res.violation(prop, "front-duplicates", case, exp, got)
    elif got != exp:
        res.violation(prop, "front-wrong", dict(case, box_bound=bound), exp, got)
    else:
        res.nontrivial.add(hash((tuple(conds), "front", tuple(got))))
        if len(exp) > 1:
            res.counters["fronts_with_several_vectors"] += 1


class C17(Check):
    id = "C17"
    level = "exploration"
    rule = ("E-in. Bases: every strongly consistent semantic class of one-conditional bases over {a,b}, one representative per "
            "conditional structure of the strongly consistent pairs, and of the <=3-subsets of the 24 literal conditionals over "
            "{a,b,c} (incl. unfalsifiable conditionals and single-conditional bases; thorough: <=4-subsets). Per base: "
            "init_random_min_c_rep must succeed; impacts are naturals; every world's rank = sum of impacts of falsified "
            "conditionals; every base conditional accepted; Pareto minimality decided by enumerating EVERY vector below the "
            "impact vector against the acceptance definition; every query of the scope that c-inference (implementation and "
            "reference) answers True is accepted; c_inference_pareto_front must terminate (Optimize.check() calls are counted, "
            "horizon 400) and return exactly the Pareto-minimal c-representations of a box containing all returned vectors. "
            "distinct_nontrivial = distinct (base, aspect) with a non-zero impact vector / a True c-inference / a front.")
    assumptions = ["reference: brute force over worlds and impact boxes; the box for the front contains the published bound and "
                   "every returned vector, so minimal elements of the box are globally Pareto-minimal",
                   "keys 1..n (parser numbering) only; a third of the bases has them inserted in descending order"]

    def tasks(self):
        quick = self.tier == "quick"
        out = []
        full2 = forms.allmask(scopes.SIG2)
        b1 = [[x] for x in scopes.semclass_reps(scopes.C2, scopes.SIG2) if ref.classify([forms.sem(x, scopes.SIG2)], full2) == "strong"]
        reps2, _ = scopes.structural_scope(scopes.C2_sub(), scopes.SIG2, 2, ("strong",), self.seed, 1, minsize=2)
        reps3, _ = scopes.structural_scope(scopes.L3, scopes.SIG3, 3 if quick else 4, ("strong",), self.seed, 1)
        q2 = scopes.semclass_reps(scopes.C2, scopes.SIG2)
        self.nb = len(b1) + len(reps2) + len(reps3)
        for i, conds in enumerate(b1 + [r[0] for r in reps2]):
            out.append((scopes.SIG2, conds, q2 if not quick else q2[i % 2::2], "parse" if i % 3 == 0 else "api" if i % 3 == 1 else "api-reversed"))
        for i, (conds, _cls) in enumerate(reps3):
            sems = [forms.sem(x, scopes.SIG3) for x in conds]
            qs = [scopes.render_query(scopes.SIG3, vf) for vf in scopes.type_queries(sems, 8, 1, 1)][::2] + scopes.literal_queries3()[::4]
            out.append((scopes.SIG3, conds, qs, "parse" if i % 3 == 1 else "api" if i % 3 == 2 else "api-reversed"))
        return out

    def run(self, task):
        res = Result()
        sig, conds, queries, via = task
        impacts = check_object(res, self.id, sig, conds, queries, via)
        check_front(res, self.id, sig, conds, impacts)
        res.digest = (res.evals, [repr(v["observed"])[:80] for v in res.violations], sorted(map(repr, res.outcomes)))
        res.samples.append({"base": [forms.ctxt(x) for x in conds], "impacts": impacts, "queries": len(queries)})
        return res

    def coverage_extra(self, agg):
        return {"bases": self.nb, "check_call_horizon": CHECK_LIMIT}

    def replay(self, rec):
        c = rec["case"]
        conds = [opsem.tup(x) for x in c["conds_f"]]
        r = Result()
        if c["config"] == "front":
            check_front(r, self.id, c["sig"], conds, None)
        else:
            qs = [opsem.tup(c["query_f"])] if c.get("query_f") else []
            check_object(r, self.id, c["sig"], conds, qs, c.get("via", "api"))
        same = [v for v in r.violations if v["kind"] == rec["kind"]]
        return {"observed": [v["observed"] for v in same[:2]], "violates": bool(same)}


CHECK = C17()
