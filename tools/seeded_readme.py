#!/usr/bin/env python3
"""Regenerates seeded/README.md from the meta.json files."""
import glob, json, os
HERE = os.path.dirname(os.path.dirname(os.path.abspath(__file__)))
metas = [json.load(open(p)) for p in sorted(glob.glob(os.path.join(HERE, "seeded", "*", "meta.json")))]
missed = [m for m in metas if m["detection"].get("missed_by_first_version_of")]
out = ["# Seeded property-breaking changes\n",
       "%d realistic changes to jonasphilipp/InfOCF, each written by a fresh sub-agent that was given only the text of one property and a" % len(metas),
       "scratch worktree of /repo (nothing from /verif): round 1 = two per property (ids `Cxx-k`), rounds 2-6 = up to three more each for the twenty",
       "properties with emphasis on call sequences, faults and unusual input shapes (ids `r2-Cxx-k` .. `r6-Cxx-k`; duplicates of earlier rounds were dropped).",
       "Every change was confirmed here (`tools/seeded_confirm.sh`): the patch applies to /repo HEAD, the demonstration passes on the",
       "unchanged tree and fails on the changed one, and the repository's own test suite still reports 82 passed, 2 skipped with the",
       "change. None of them is committed to /repo. To run checks against one: `tools/seeded_eval.sh seeded/<id>/patch.diff C01 C12`",
       "(scratch worktree), or `git -C /repo apply seeded/<id>/patch.diff; ./check C01; git -C /repo checkout -- .`.",
       "`tools/seeded_all.sh` re-runs every change against the checks listed for it.\n",
       "All %d are reported by at least one quick check. %d were missed by the first version of the checks; the last column says what was" % (len(metas), len(missed)),
       "added (always more exploration or a stronger oracle, never a loosening), after which they are reported on every run.\n",
       "| id | files | reported by (quick tier) | missed at first by | what was strengthened / notes |", "|---|---|---|---|---|"]
for m in metas:
    d = m["detection"]
    out.append("| %s | %s | %s | %s | %s |" % (
        m["id"], ", ".join(f.replace("inference/", "") for f in m["files_changed"]), ", ".join(d["caught_by"]),
        ", ".join(d.get("missed_by_first_version_of", [])) or "-",
        " ".join(x for x in (d.get("strengthening"), d.get("note")) if x).replace("|", "/")))
cross = [m["id"] for m in metas if m["breaks_property"] not in m["detection"]["caught_by"]]
out.append("\nChanges seeded for one property but reported only by the check of another: %s (see the notes column / meta.json)." % ", ".join(cross))
open(os.path.join(HERE, "seeded", "README.md"), "w").write("\n".join(out) + "\n")
print(len(metas), "changes,", len(missed), "missed at first")
