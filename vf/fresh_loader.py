"""Run in a FRESH interpreter: load every pickled ranking object listed in a job file and report what it looks like.

Before loading, unrelated pysmt nodes are allocated so that node ids in this process differ from those of the saving
process (formula objects are re-created by unpickling)."""
import json
import sys
import warnings

warnings.filterwarnings("ignore")


def main():
    job = json.load(open(sys.argv[1]))
    import logging

    logging.disable(logging.CRITICAL)
    from pysmt.shortcuts import And, Not, Or, Symbol

    junk = [Symbol("zz%d" % i) for i in range(job.get("junk", 37))]
    junk2 = [And(junk[i], Or(Not(junk[i + 1]), junk[(i * 7) % len(junk)])) for i in range(len(junk) - 1)]
    from vf import drive, forms
    from inference.preocf import PreOCF

    out = {}
    for item in job["items"]:
        try:
            obj = PreOCF.load_ocf(item["path"], trusted=True)
            rec = {"signature": list(obj.signature), "ranks_as_loaded": dict(obj.ranks), "worlds": sorted(obj.ranks),
                   "impacts": list(getattr(obj, "_impacts", []) or []) if hasattr(obj, "_impacts") else None,
                   "ranking_system": obj.ranking_system}
            lazy = {}
            for w in item.get("lazy_order", []):
                lazy[w] = obj.rank_world(w)
            rec["lazy"] = lazy
            rec["ranks_completed"] = dict(obj.compute_all_ranks())
            acc = []
            for q in item.get("queries", []):
                qq = tuple(tuple(x) if isinstance(x, list) else x for x in q)
                from vf.opsem import tup

                acc.append(bool(obj.conditional_acceptance(drive.mkcond(tup(q)))))
            rec["acceptance"] = acc
            if obj.conditionals:
                rec["own_conditionals_accepted"] = [bool(obj.conditional_acceptance(c)) for c in obj.conditionals.values()]
            out[item["path"]] = rec
        except BaseException as e:  # noqa: BLE001
            out[item["path"]] = {"error": "%s: %s" % (type(e).__name__, str(e)[:200])}
    json.dump(out, open(sys.argv[2], "w"))


if __name__ == "__main__":
    main()
