"""Shipped example corpora (differential checks only: no reference model at these sizes)."""
import glob
import os
import re

from . import drive


def examples_dir():
    return os.path.join(drive.repo_root(), "examples")


def random_large(family, index):
    d = os.path.join(examples_dir(), "random_large")
    return (os.path.join(d, "randomTest_%s_%d.cl" % (family, index)),
            os.path.join(d, "randomQueries_%s_%d.clq" % (family, index)))


SMALL_FAMILIES = ["6_6", "8_8", "10_10", "12_12", "14_14", "16_16", "18_18", "20_20"]
LARGE_FAMILIES = ["30_30", "40_40", "50_50", "60_60"]


def named_bases():
    """birds, gen, AO_Beispiele: (belief base file, query file or None) for every shipped knowledge base."""
    ex = examples_dir()
    out = []
    for p in sorted(glob.glob(os.path.join(ex, "birds", "*.cl")) + glob.glob(os.path.join(ex, "gen", "*.cl"))):
        b = os.path.basename(p)
        if b.startswith("query"):
            continue
        q = os.path.join(os.path.dirname(p), "query_" + re.sub(r"^kb_", "", b))
        out.append((p, q if os.path.isfile(q) else None))
    for p in sorted(glob.glob(os.path.join(ex, "AO_Beispiele_Konditionale_KBs", "*", "KB_*", "*.cl"))):
        top = os.path.dirname(os.path.dirname(p))
        qs = sorted(q for q in glob.glob(os.path.join(top, "Queries_*", "*.cl")) if "(orig)" not in q)
        out.append((p, qs[0] if qs else None))
    return out


def rep484(i):
    return os.path.join(examples_dir(), "484_inference_relations_representatives", "kb%d.cl" % i)


def load_bb(path):
    from parser.Wrappers import parse_belief_base

    return parse_belief_base(path)


def load_queries(path):
    from parser.Wrappers import parse_queries

    return list(parse_queries(path).conditionals.values())


def literal_queries(sig, k=4):
    """All (l|l') over distinct atoms among the first k atoms of the signature, as Conditional objects."""
    from pysmt.shortcuts import Not, Symbol

    from inference.conditional import Conditional

    atoms = list(sig)[:k]
    lits = [(x, Symbol(x)) for x in atoms] + [("!" + x, Not(Symbol(x))) for x in atoms]
    out = []
    for tb, b in lits:
        for ta, a in lits:
            if tb.lstrip("!") == ta.lstrip("!"):
                continue
            out.append(Conditional(b, a, "(%s|%s)" % (tb, ta)))
    return out
