#!/usr/bin/env python3
"""Writes /verif/MANIFEST.json from the table below (single source of truth for the registered checks)."""
import json
import os

HERE = os.path.dirname(os.path.dirname(os.path.abspath(__file__)))
ALL = ["C%02d" % i for i in range(1, 21)]

E_IN = "bounded-exhaustive input-space exploration of the real code against a brute-force reference model"
CHECKS = {
    "C01": dict(cat="exploration", tech=E_IN, ref="DESIGN.md 4/C01",
                text="Every strongly consistent base of the named finite scopes (all 1-conditional bases over the 16 truth functions of 2 atoms, structure representatives of all pairs, one representative of every conditional structure of <=4 literal conditionals over 3 atoms, of <=4-subsets of a 12-element chain/bridge alphabet over 4 atoms, bases with duplicated conditionals, non-contiguous keys, label-only texts, DEBUG logging on for a slice) x completely enumerated query sets (incl. the reference-selected tie-rich ones) is run through InferenceManager('p-entailment') and compared with the tolerance definition evaluated by brute force over worlds.",
                note="Trusted: vf/ref.py (self-tested in setup against 'accepted by every ranking model'). Nothing is claimed outside the scopes (<=4 atoms + one foreign atom, <=4 conditionals)."),
    "C02": dict(cat="exploration", tech=E_IN, ref="DESIGN.md 4/C02",
                text="Same scopes as C01 through InferenceManager('system-z'); oracle is the Z-rank comparison by brute force; partition depths 1..3 are all reached (counted in the evidence).",
                note="Trusted: vf/ref.py. Nothing is claimed outside the scopes."),
    "C03": dict(cat="exploration", tech=E_IN, ref="DESIGN.md 4/C03",
                text="Same scopes, both MaxSAT back-ends (rc2, z3), oracle is the preferred-structure definition of System W by brute force; includes constants Top/Bottom, compound formulas, incomparable falsification sets (counted). Also pairs (thorough: three members per structure) over an alphabet with three-literal conjunctive consequents (l1,l2,l3|Top), where MaxSAT clause cost and the number of falsified conditionals come apart.",
                note="Trusted: vf/ref.py. Nothing is claimed outside the scopes."),
    "C04": dict(cat="exploration", tech=E_IN, ref="DESIGN.md 4/C04",
                text="Same scopes, both back-ends, oracle is the comparison of least per-layer falsification-count vectors by brute force; the type-level query family reaches ties between several minimum sets with differing continuations. Also pairs (thorough: three members per structure) over an alphabet with three-literal conjunctive consequents (l1,l2,l3|Top), where MaxSAT clause cost and the number of falsified conditionals come apart.",
                note="Trusted: vf/ref.py. Nothing is claimed outside the scopes."),
    "C05": dict(cat="exploration", tech=E_IN, ref="DESIGN.md 4/C05",
                text="Scopes with n<=3 conditionals (quick) so that the impact box {0..2^(n-1)}^n is enumerated completely; oracle is skeptical inference over every c-representation in the box.",
                note="Trusted: vf/ref.py and the published upper bound 2^(n-1) on impacts needed for skeptical c-inference."),
    "C06": dict(cat="exploration", tech=E_IN, ref="DESIGN.md 4/C06",
                text="Every base of four completely enumerated families (256 + 3160 + 256 two-atom bases, 4525 three-atom bases, the empty base) in both modes through consistency() and consistency_indices(), compared layer by layer with the brute-force tolerance partition; diagnostics flags for every fact list of length <=2 over a 7-formula menu x 4 (extended, uses_facts) cases; every operator/back-end/mode must raise on every base of the families that its mode rejects.",
                note="Trusted: vf/ref.py. <=3 atoms, <=3 conditionals per base (thorough 4)."),
    "C07": dict(cat="exploration", tech=E_IN, ref="DESIGN.md 4/C07",
                text="weakly=True, six operator/back-end combinations, all four consistency classes (strong, weak with finite layers, weak without finite layer; inconsistent goes to C06) on two- and three-atom scopes x completely enumerated query sets; oracle: extended definitions (feasible worlds, finite layers, vacuity rules) by brute force; any exception or non-Boolean is a violation.",
                note="Trusted: vf/ref.py (extended p-entailment cross-checked in setup against ranking models with an infinity class)."),
    "C08": dict(cat="exploration", tech="bounded-exhaustive differential exploration: all operators on the same (base, query), implication chain checked on their answers, no oracle", ref="DESIGN.md 4/C08",
                text="All 10 implications of the chain on every (base, query, mode) of: structure representatives of <=4-subsets of literal conditionals, all shipped birds/gen/AO knowledge bases with their query files, a slice of the 484 two-atom representatives, random_large families 6_6..20_20 (thorough: all 100 bases of 12 families up to 60_60) with complete query files plus all 48 literal queries over the first four atoms.",
                note="Compares the implementation with itself, so it scales to dozens of atoms; single-answer correctness is C01-C07's business."),
    "C10": dict(cat="exploration", tech="bounded-exhaustive enumeration of token strings / ASTs / layouts / single-token mutations against an independent recursive-descent recogniser", ref="DESIGN.md 4/C10",
                text="All 299 592 token strings of length <=6 over an 8-token alphabet (thorough <=7), all token strings of length <=4 with one line break (LF, CRLF, comment+LF, blank line) at every gap, all depth-2 ASTs in minimal and full parenthesisation x 5 layouts, all one-conditional bases x 8 file layouts, every single-token deletion/duplication/substitution/insertion of three files and two query lists; accepted => in the reference language with the same meaning, signature, order, keys, orientation, re-parsable text.",
                note="Trusted: vf/refparse.py, deliberately generous on layout (ignores newlines) and strict on token structure and end of input; rejections by the implementation are never violations."),
    "C15": dict(cat="exploration", tech=E_IN, ref="DESIGN.md 4/C15",
                text="(a) every conditional of three formula families through belief_base_to_cnf and query_to_cnf x all complete assignments, satisfiability under the assignment decided by a hand-written DPLL; (b) minimal_correction_subsets on every WCNF shape the operators build (layers, fixed ties, c-inference compilations, unsatisfiable hard parts) for structure representatives x 5 rc2 SAT engines (thorough: all usable), against the inclusion-minimal falsification sets computed over worlds.",
                note="Trusted: vf/ref.py, the DPLL in vf/checks/c15.py. Engines that are not installed are excluded by a run-time probe."),
    "C16": dict(cat="model_checking", tech="explicit-state BFS over the lazy rank cache of the real ranking objects (state = ranks table, every transition executed on the implementation) plus bounded-exhaustive input exploration against brute-force Z-ranks", ref="DESIGN.md 4/C16",
                text="For every base of the two-atom scopes (semantic classes of single conditionals, structure representatives of pairs) x 15 fact lists x extended in {None,False,True}, and structure representatives over three atoms: ranks (lazy, forced, all at once), acceptance of base conditionals, acceptance == System Z (reference and operator), refusal with diagnostics; complete BFS over all 16 cache states of 4-world objects and all 256 states of selected 8-world objects with the invariant checked on every transition.",
                note="Trusted: vf/ref.py. States are restored by assigning the ranks table; validated by replaying BFS-tree paths on fresh objects (traces_validated_against_impl)."),
    "C18": dict(cat="exploration", tech=E_IN, ref="DESIGN.md 4/C18",
                text="All rank tables -> {0..3} over 1 and 2 atoms and a stated family over 3 atoms (thorough: all 6561 tables -> {0..2}) x every formula / conditional / proper atom subset / layer numbering of the families: formula_rank, conditional_acceptance, marginalize, both conditionalisations, ranks2tpo/tpo2ranks against the five laws evaluated by brute force; custom and System Z objects.",
                note="Signatures of 1-4 atoms (over 4 atoms a fixed family of tables only)."),
    "C09": dict(cat="exploration", tech="bounded-exhaustive computation of complete inference relations over all 16x16 truth functions, then every postulate instance evaluated on the table (no oracle)", ref="DESIGN.md 4/C09",
                text="Per base and operator/back-end/mode the complete inference relation over the 256 pairs of truth functions of two atoms (+128 queries in secondary syntactic forms) is computed and every instance of REF, SC, LLE, RW, AND, OR, CM, CUT (16^3 tuples), (Bottom|A) only for unsatisfiable A, and RM for Z/lex is checked; direct inference on two-atom scopes, three-atom structure representatives and the shipped corpora up to 20 atoms (thorough 60).",
                note="Postulate instances range over formulas of two atoms only; compares the implementation with itself."),
    "C11": dict(cat="exploration", tech="bounded-exhaustive differential exploration across all selectable MaxSAT back-ends / SAT engines", ref="DESIGN.md 4/C11",
                text="System W and lex_inf under z3, rc2 and rc2-<engine> (quick: g3, cd19, m22, mcb; thorough: every engine a run-time probe finds usable), c-inference under every rc2 engine, both modes, on structure representatives over two and three atoms and on shipped corpora; answers (and exceptions) must be identical across back-ends.",
                note="Engines without an installed binding cannot be explored (listed in the evidence). Compares the implementation with itself."),
    "C12": dict(cat="exploration", tech="bounded-exhaustive metamorphic exploration over a finite transformation menu (keys, order, renaming, signature, equivalence rewrites)", ref="DESIGN.md 4/C12",
                text="Every transformation of the menu (key maps incl. 0-based / sparse / all permutations, all dict orders, atom permutations and fresh names, signature reversal / extension, seven equivalence-preserving rewrites of base or query, selected pairs) applied to structure representatives over two and three atoms x all operator/back-end/mode combinations; the answer vector must equal the canonical presentation's.",
                note="Non-negative integer keys only. Compares the implementation with itself."),
    "C13": dict(cat="model_checking", tech="stateless exploration of all operation sequences up to a depth bound on real manager objects + explicit-state BFS with canonicalised epistemic state + exhaustive schedule enumeration over a controlled multiprocessing double (real forked workers)", ref="DESIGN.md 4/C13",
                text="All sequences of depth <=2 (thorough 3) over 30 batches (duplicate query texts, keys colliding with batch positions, a negative key, a deep-nested pair, a vacuous query, a re-used key) x sequential / parallel, per (base, operator, back-end, mode; the bases include one with a conditional no world falsifies); merged BFS over the canonical epistemic state until closure with the canonical form validated by un-merged depth-3 runs; all worker-delivery schedules for k=1..3 workers (done / done-at-join / late / alive-lost / alive-wrote per worker and every completion order of the early finishers); oracle per call: one row per query, order, own key, own text, answer as alone on a fresh manager (or flagged timed out), no process left un-joined; plus calls through the real multiprocessing module checking active_children().",
                note="Worker completion is modelled at call granularity (visibility of a worker's writes relative to join/is_alive/terminate); OS scheduling inside a worker is not modelled."),
    "C14": dict(cat="fault_enumeration", tech="deviation-bounded exhaustive enumeration of environment answers (deadline observations, solver verdicts, clock reads) at every observation point of real executions, incl. points inside forked workers", ref="DESIGN.md 4/C14",
                text="For every (base, operator, back-end, mode, budget configuration in {0,T}^3, sequential/parallel): the 0-deviation execution, then every single deviation at every observation point (thorough: every pair): Deadline observed as expired (sticky), Optimize.check() -> unknown (no model / feasible non-optimal model / forever), preprocessing clock +T/+2T. Each execution is a 3-query call plus a later call on the same manager; a second family over four atoms (three bases, queries selected by the reference model for a top-layer tie / an enumeration that must be complete) re-asks every query in the later call and runs the z3 back-ends under both iteration orders of their conditional sets; oracle: no exception escapes, every row flagged-with-False or equal to the run without budgets.",
                note="Expiry is modelled at the granularity of the code's own observations; z3's internal timeout is never armed, real time never fires (T=1000 s). The iteration order of the z3 back-ends' address-hashed conditional sets is owned by the harness (ascending / descending); a replay that diverges is a harness error (exit 2), never a violation."),
    "C17": dict(cat="exploration", tech=E_IN, ref="DESIGN.md 4/C17",
                text="Every strongly consistent base of the two-atom scopes and structure representatives over three atoms: construction, natural impacts, rank = sum of impacts of falsified conditionals, acceptance of the base, Pareto minimality by enumerating every vector below the impact vector, acceptance of every query c-inference (implementation and reference) entails, and the Pareto-front enumeration: terminates (check() calls counted) and equals the minimal c-representations of a box containing all returned vectors.",
                note="Trusted: brute force over worlds and impact boxes. Keys 1..n only."),
    "C19": dict(cat="model_checking", tech="bounded-exhaustive input exploration with the oracle evaluated on the returned numbers + stateless exploration of all add/remove sequences on the real incremental model (plus merged BFS on the set of present conditionals)", ref="DESIGN.md 4/C19",
                text="All priors -> {0..2} over one atom and a third of those over two atoms (thorough: all, plus three atoms) x all lists of 1-2 revision conditionals of a 12-element alphabet x gamma_plus_zero x 5 fixed-value maps x {fast, incremental}: returned parameters are naturals, respect fixed values, revised ranking accepts all; None only without witness in a box; never raises; Pareto minimality by enumerating the box below; three compilations equal the definition. CRevisionModel: every add/remove sequence of depth <=3 (thorough 4) over 4 conditionals keeps to_compilation() equal to a fresh reference compilation.",
                note="'None' is judged against witnesses in a finite box only (sound, incomplete)."),
    "C20": dict(cat="fault_enumeration", tech="exhaustive enumeration of partial-computation states x save/load channels (same process and a fresh interpreter) and of every failure point of every save operation (open fails, k-th write fails for every k, unpicklable member in each attribute)", ref="DESIGN.md 4/C20",
                text="Every object kind (custom, System Z with/without facts and extended, c-representation, built from an impact list) x every subset of computed worlds (2 atoms) / prefix and singleton (3 atoms): save_ocf then load_ocf in-process and in a fresh interpreter must give the same signature, ranks (as saved, lazily continued, completed), impacts and acceptance; impacts (incl. vectors of 9..24 distinct components) and metadata round trips over all formats; every save operation with every single write failure / open failure / unpicklable attribute must raise and leave ranks, impacts, metadata, _optimizer/_csp untouched and the object answering as before.",
                note="Fresh interpreter = sub-process of the same Python installation that first allocates unrelated formula nodes. Timestamps/provenance metadata keys are ignored."),
}

NOT_YET = "check under construction in this session (see DESIGN.md section 4 for the planned exploration)"


def main():
    checks = []
    for pid in ALL:
        c = CHECKS.get(pid)
        if not c:
            continue
        checks.append({
            "property_id": pid,
            "quick_cmd": "./check %s --tier quick" % pid,
            "thorough_cmd": "./check %s --tier thorough" % pid,
            "evidence_file": "/verif/evidence/%s.json" % pid,
            "replay_cmd_template": "./check %s --replay {path}" % pid,
            "engine": "vf",
            "level_claimed": {"category": c["cat"], "text": c["text"], "design_ref": c["ref"]},
            "level_note": c["note"],
            "technique": c["tech"],
        })
    m = {
        "version": 1,
        "setup_cmd": "./setup.sh",
        "hooks": {
            "guard": "INFOCF_VERIF",
            "enable": "no hook commits exist: every seam is installed from outside the repository by attribute replacement (see DESIGN.md 3.3); checks export INFOCF_VERIF=1 for forward compatibility only",
            "baseline_off_cmd": "cd /repo && /venv/bin/python -m pytest -ra -q -p no:cacheprovider --timeout=900 --continue-on-collection-errors",
            "source_commits": [],
            "add_only": True,
        },
        "engines": [{
            "name": "vf", "path": "/verif/vf",
            "serves_properties": [c["property_id"] for c in checks],
            "kind_free_text": "hand-written explicit-state / bounded-exhaustive explorers in Python driving the real code (input-space, operation-sequence BFS/DFS, deviation-bounded environment, schedule exploration) with a brute-force reference model",
        }],
        "checks": checks,
        "not_applicable": [{"property_id": p, "reason": NOT_YET} for p in ALL if p not in CHECKS],
        "notes": "All checks run /repo's working tree through /venv/bin/python (editable install). VERIF_SEED rotates the structure representatives; VERIF_TIER or --tier selects the tier.",
    }
    with open(os.path.join(HERE, "MANIFEST.json"), "w") as fh:
        json.dump(m, fh, indent=1)
        fh.write("\n")


if __name__ == "__main__":
    main()
