import json, sys
import jsonschema
schema = json.load(open("/root/.vp/EVIDENCE.schema.json"))
for p in sys.argv[1:]:
    try:
        jsonschema.validate(json.load(open(p)), schema)
    except Exception as e:  # noqa: BLE001
        print("HARNESS-ERROR evidence %s does not validate: %s" % (p, str(e)[:400]))
        sys.exit(1)
