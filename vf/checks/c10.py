"""C10 the parser yields exactly the documented meaning, or rejects."""
import itertools
import os

from .. import drive, forms, opsem, refparse, scopes
from ..forms import BOT, TOP, A, N, O, V
from ..runner import Check, Result

TOK = ["a", "b", "Top", "!", ",", ";", "(", ")"]
SIGX = ["a", "b", "c", "zz"]


def impl_formula(s):
    from parser.Wrappers import parse_formula

    try:
        node = parse_formula(s)
    except BaseException as e:  # noqa: BLE001
        if isinstance(e, (KeyboardInterrupt, SystemExit, MemoryError)):
            raise
        return None, drive.exc_obs(e)
    try:
        return forms.from_pysmt(node), None
    except Exception as e:  # noqa: BLE001
        return None, ("EXC", "Unconvertible", repr(node)[:60])


def wsig_for(*fs):
    at = []
    for f in fs:
        forms.atoms(f, at)
    return sorted(at)


def same_meaning(f, g):
    sig = wsig_for(f, g)
    return forms.mask(f, sig) == forms.mask(g, sig)


def judge_formula(res, prop, s, family):
    """One string through parse_formula and through the reference recogniser."""
    got, err = impl_formula(s)
    try:
        exp = refparse.parse_formula(s)
    except refparse.Reject as r:
        exp = None
        why = str(r)
    res.evals += 1
    if got is None and err and err[1] == "Unconvertible":
        res.violation(prop, "formula-node", {"text": s, "family": family, "config": "parse_formula"}, "and/or/not/atoms", err)
        return "bad"
    if got is None:
        if exp is None:
            res.counters["formula_rejected_malformed"] += 1
            return "rej"
        res.counters["formula_rejected_but_in_reference_language"] += 1
        return "overrej"
    if exp is None:
        res.violation(prop, "accepted-malformed", {"text": s, "family": family, "config": "parse_formula"},
                      "rejected (%s)" % why, {"accepted_as": forms.txt(got)})
        return "bad"
    if not same_meaning(got, exp):
        res.violation(prop, "meaning", {"text": s, "family": family, "config": "parse_formula"},
                      forms.txt(exp, full=True), {"accepted_as": forms.txt(got, full=True)})
        return "bad"
    res.counters["formula_accepted_same_meaning"] += 1
    res.nontrivial.add(s)
    return "ok"


def gen_depth(leaves, d):
    cur = list(leaves)
    for _ in range(d):
        nxt = list(cur)
        nxt += [N(f) for f in cur]
        nxt += [op(f, g) for op in (A, O) for f in cur for g in cur]
        cur = list(dict.fromkeys(nxt))
    return cur


def layouts(tokens):
    """Whitespace / comment variants of a token list (newline-free: a formula is a single-line construct)."""
    yield " ".join(tokens)
    yield "".join(tokens) if all(len(t) == 1 or i == len(tokens) - 1 or not (tokens[i + 1][0].isalnum())
                                  for i, t in enumerate(tokens)) else " ".join(tokens)
    yield "  \t" + " \t ".join(tokens) + "  "
    yield " /* x,y */ ".join(tokens)
    yield " ".join(tokens) + " // trailing comment (a|b)"


def ftoks(f, full):
    return refparse.tokenize(forms.txt(f, True, full))


# ---------------------------------------------------------------------------------------------------------
# belief base / query list texts
# ---------------------------------------------------------------------------------------------------------
def bb_layout(sig, conds, k, name="kb"):
    cl = [forms.ctxt(c) for c in conds]
    if k == 0:
        return drive.bb_text(sig, conds, name)
    if k == 1:
        return drive.bb_text(sig, conds, name).replace("\n", "\r\n")
    if k == 2:
        return drive.bb_text(sig, conds, name).rstrip("\n")
    if k == 3:
        return "// header comment\n\n\nsignature\n\n  %s\n\n/* block\n comment */\nconditionals\n\n%s\n{\n\n%s\n\n}\n\n\n" % (
            " , ".join(sig), name, ",\n\n".join(cl))
    if k == 4:
        return "signature\n%s\nconditionals\n%s{\n%s\n}\n" % (",".join(sig), name, ", /* c1 */\n".join(cl) + " // last")
    if k == 5:
        return "signature\n%s\nconditionals\n%s{%s}" % (",".join(sig), name, ",".join(cl))
    if k == 6:
        return "\n\n\nsignature\n%s\nconditionals\n%s{\n%s}\n" % (",".join(sig), name, ",".join(cl))
    if k == 7:
        return "signature\n\t%s\nconditionals\n%s\t{\n\t%s\n}" % (",\t".join(sig), name, ",\n\t".join(
            "( %s | %s )" % (forms.txt(c[0]), forms.txt(c[1])) for c in conds))
    raise ValueError(k)


NLAYOUT = 8


_TMPDIR = None


def impl_bb(text, what="bb", via_file=False):
    from parser.Wrappers import parse_belief_base, parse_queries

    arg = text
    if via_file:      # file-or-string detection: the same text, handed over as a path
        global _TMPDIR
        import tempfile

        if _TMPDIR is None:       # replay path: no task around it
            _TMPDIR = tempfile.mkdtemp(prefix="vf-c10-")
            import atexit
            import shutil

            atexit.register(shutil.rmtree, _TMPDIR, True)
        arg = os.path.join(_TMPDIR, "f%d.%s" % (abs(hash(text)) % 10 ** 9, "cl" if what == "bb" else "clq"))
        with open(arg, "w", newline="") as fh:
            fh.write(text)
    try:
        bb = parse_belief_base(arg) if what == "bb" else parse_queries(arg)
    except BaseException as e:  # noqa: BLE001
        if isinstance(e, (KeyboardInterrupt, SystemExit, MemoryError)):
            raise
        return None, drive.exc_obs(e)
    return bb, None


def describe_bb(bb):
    """Observable content of a parsed base: signature, keys, per conditional (consequent, antecedent, text)."""
    out = {"signature": list(bb.signature), "keys": list(bb.conditionals.keys()), "conds": []}
    for k, c in bb.conditionals.items():
        out["conds"].append((forms.from_pysmt(c.consequence), forms.from_pysmt(c.antecedence), str(c)))
    return out


def judge_bb(res, prop, text, family, what="bb", via_file=False):
    """One text through parse_belief_base / parse_queries and through the reference recogniser."""
    bb, err = impl_bb(text, what, via_file)
    try:
        if what == "bb":
            rsig, blocks = refparse.parse_file(text)
            rconds = blocks[0][1]
        else:
            rsig, rconds = None, refparse.parse_condlist(text)
        why = None
    except refparse.Reject as r:
        rsig = rconds = None
        why = str(r)
    res.evals += 1
    case = {"text": text, "family": family, "config": "parse_belief_base" if what == "bb" else "parse_queries", "via_file": via_file}
    if bb is None:
        res.counters["%s_rejected_%s" % (what, "malformed" if why else "but_in_reference_language")] += 1
        return
    try:
        d = describe_bb(bb)
    except Exception as e:  # noqa: BLE001
        res.violation(prop, "bb-node", case, "and/or/not/atoms", drive.exc_obs(e))
        return
    if why:
        res.violation(prop, "accepted-malformed", case, "rejected (%s)" % why,
                      {"accepted_as": [t for _b, _a, t in d["conds"]], "signature": d["signature"]})
        return
    problems = []
    if what == "bb" and d["signature"] != rsig:
        problems.append("signature %r != declared %r" % (d["signature"], rsig))
    if d["keys"] != list(range(1, len(rconds) + 1)):
        problems.append("keys %r for %d conditionals" % (d["keys"], len(rconds)))
    else:
        for i, ((gb, ga, gt), (rb_, ra)) in enumerate(zip(d["conds"], rconds), start=1):
            if not same_meaning(gb, rb_) or not same_meaning(ga, ra):
                problems.append("conditional %d parsed as (%s|%s), file says (%s|%s)" % (
                    i, forms.txt(gb), forms.txt(ga), forms.txt(rb_), forms.txt(ra)))
                continue
            # text representation re-parses to an equivalent conditional
            q, e2 = impl_bb(gt, "q")
            if q is None or len(q.conditionals) != 1:
                problems.append("text representation %r of conditional %d does not re-parse (%r)" % (gt, i, e2))
            else:
                c2 = list(q.conditionals.values())[0]
                if not same_meaning(forms.from_pysmt(c2.consequence), rb_) or not same_meaning(forms.from_pysmt(c2.antecedence), ra):
                    problems.append("text representation %r of conditional %d re-parses to a different conditional" % (gt, i))
    if problems:
        res.violation(prop, "meaning", case, "signature/order/keys/orientation/meaning of the file", problems[:4])
        return
    res.counters["%s_accepted_same_meaning" % what] += 1
    res.nontrivial.add(text)


MUT_FILES = [
    "signature\n  a,b\nconditionals\nkb{\n  (b|a),\n  (!a;b|a,Top)\n}\n",
    "signature\n  a,b,c\n\nconditionals\nk1{\n  ((a,b);!c|!(a;b)),\n  (c|Bottom)\n}\n",
    "signature\n  zz\nconditionals\nx_1{\n  (zz|Top)\n}",
]
MUT_QUERIES = ["(b|a),(!a;b|a,Top)", "(c|a;b),\n(a|!b),\n((a)|b)"]
SUBST = ["a", "zz", "Top", "(", ")", "{", "}", "|", ",", ";", "!", "signature", "conditionals", "\n", "#"]


def tok_nl(s):
    """Tokens including newlines (for the mutation family)."""
    out = []
    for line in s.split("\n"):
        out += refparse.tokenize(line)
        out.append("\n")
    return out[:-1]


def join_nl(toks):
    return " ".join(toks).replace(" \n ", "\n").replace("\n ", "\n").replace(" \n", "\n")


def mutations(toks):
    for i in range(len(toks)):
        yield ("del", i), toks[:i] + toks[i + 1:]
        yield ("dup", i), toks[:i + 1] + toks[i:]
        for s in SUBST:
            if s != toks[i]:
                yield ("sub", i, s), toks[:i] + [s] + toks[i + 1:]
        for s in ("a", ")", "}", ",", "\n"):
            yield ("ins", i, s), toks[:i] + [s] + toks[i:]
    for s in SUBST:
        yield ("app", s), toks + [s]


class C10(Check):
    id = "C10"
    level = "exploration"
    rule = ("E-in over strings. (i) ALL token strings of length <= 6 (thorough 7) over {a,b,Top,!,',',';',(,)} and all of length "
            "<= 4 over that alphabet plus {#,Bottom,|} through parse_formula, and all of length <= 4 with one line break (LF, CRLF, comment + LF, blank line) at every gap; (ii) all formula ASTs of depth <= 2 over "
            "{a,b,Top,Bottom} (3 280) and a depth-3 slice, printed minimally and fully parenthesised, in five "
            "whitespace/comment layouts; (iii) every one-conditional base over the 256 conditionals of C2 and a slice of "
            "three-conditional bases in 8 file layouts (CRLF, blank lines, comments, no trailing newline, one line, tabs) "
            "through parse_belief_base (as strings and as files on disk), and the C2 conditionals as query lists / query files through parse_queries; (iii') parse, damage the returned objects, parse the same text again; (iv) every "
            "single-token deletion, duplication, substitution (15 tokens) and insertion (5 tokens) and every appended "
            "token of three well-formed files and two query lists. Oracle: independent recursive-descent recogniser "
            "(vf/refparse.py): accepted => in the reference language with the same truth table / signature / order / keys "
            "1..n / orientation and a text representation that re-parses to an equivalent conditional. "
            "distinct_nontrivial = distinct accepted texts whose meaning was compared.")
    assumptions = ["reference recogniser vf/refparse.py: ignores newlines (generous on layout), strict on token structure and "
                   "end of input; texts the implementation rejects are never violations (counted only)",
                   "files with several 'conditionals' blocks: only the first block is compared (what the API returns)"]

    def tasks(self):
        out = []
        n = 6 if self.tier == "quick" else 7
        out.append(("tok", (), 2, TOK))
        for p in itertools.product(TOK, repeat=2):
            out.append(("tok", p, n - 2, TOK))
        ext = TOK + ["#", "Bottom", "|"]
        for t in ext:
            out.append(("tok", (t,), 3, ext))
        # line breaks inside / after a formula: every token string of length <= 4 with one break at every gap
        for t in TOK:
            out.append(("toknl", (t,), 3, TOK))
        d2 = gen_depth([V("a"), V("b"), TOP, BOT], 2)
        self.nd2 = len(d2)
        for i in range(0, len(d2), 200):
            out.append(("ast", i, i + 200, 0))
        for i in range(0, 80, 8):
            out.append(("ast", i, i + 8, 1))
        for i in range(0, 256, 16):
            out.append(("bb1", i, i + 16))
        out.append(("bb3",))
        out.append(("reparse",))
        for i in range(len(MUT_FILES)):
            for part in range(4):
                out.append(("mutf", i, part))
        for i in range(len(MUT_QUERIES)):
            out.append(("mutq", i))
        return out

    def run(self, task):
        # files written for the file-or-string cases live in a per-task scratch directory that is removed when the task ends
        global _TMPDIR
        import shutil
        import tempfile

        _TMPDIR = tempfile.mkdtemp(prefix="vf-c10-")
        try:
            return self._run(task)
        finally:
            shutil.rmtree(_TMPDIR, ignore_errors=True)
            _TMPDIR = None

    def _run(self, task):
        res = Result()
        kind = task[0]
        obs = []
        if kind == "tok":
            _k, prefix, more, alpha = task
            for ln in range(0 if prefix else 1, more + 1):
                for tail in itertools.product(alpha, repeat=ln):
                    toks = list(prefix) + list(tail)
                    if not toks:
                        continue
                    obs.append(judge_formula(res, self.id, " ".join(toks), "token-strings"))
            if prefix == ():
                obs.append(judge_formula(res, self.id, "", "token-strings"))
        elif kind == "toknl":
            _k, prefix, more, alpha = task
            for ln in range(0, more + 1):
                for tail in itertools.product(alpha, repeat=ln):
                    toks = list(prefix) + list(tail)
                    for gap in range(0, len(toks) + 1):
                        for br in ("\n", "\r\n", " // c\n ", "\n\n"):
                            if br != "\n" and (gap + len(toks)) % 3:
                                continue   # the bare break at every gap, the other renderings at every third (gap, length)
                            s = " ".join(toks[:gap]) + br + " ".join(toks[gap:])
                            obs.append(judge_formula(res, self.id, s, "token-strings-with-line-break"))
        elif kind == "ast":
            _k, lo, hi, deep = task
            d2 = gen_depth([V("a"), V("b"), TOP, BOT], 2)
            if deep:
                sl = d2[::41]
                fs = [op(f, g) for op in (A, O) for f in sl[lo:hi] for g in sl] + [N(f) for f in sl[lo:hi]]
            else:
                fs = d2[lo:hi]
            for f in fs:
                for full in (False, True):
                    toks = ftoks(f, full)
                    for s in dict.fromkeys(layouts(toks)):
                        r = judge_formula(res, self.id, s, "ast-depth%d" % (3 if deep else 2))
                        obs.append(r)
                        if r == "overrej":   # a printed AST is certainly well formed: count separately
                            res.counters["wellformed_ast_rejected"] += 1
        elif kind == "bb1":
            _k, lo, hi = task
            for cnd in scopes.C2[lo:hi]:
                for k in range(NLAYOUT):
                    judge_bb(res, self.id, bb_layout(scopes.SIG2, [cnd], k), "B1-layout%d" % k)
                judge_bb(res, self.id, bb_layout(scopes.SIG2, [cnd], lo % NLAYOUT), "B1-file", via_file=True)
                judge_bb(res, self.id, forms.ctxt(cnd) + ",\n" + forms.ctxt(cnd, full=True) + "\n", "C2-queryfile", what="q", via_file=True)
                judge_bb(res, self.id, forms.ctxt(cnd), "C2-query", what="q")
                judge_bb(res, self.id, forms.ctxt(cnd, full=True) + ",\n" + forms.ctxt(cnd), "C2-query2", what="q")
        elif kind == "reparse":
            # history: parse a text, damage the returned objects, parse the SAME text again - the second result must be fresh
            from parser.Wrappers import parse_belief_base, parse_queries

            cs = scopes.L3PLUS
            for i in range(0, 24):
                conds = [cs[i], cs[(i * 5 + 7) % len(cs)], cs[(i * 3 + 11) % len(cs)]]
                text = bb_layout(scopes.SIG3, conds, i % NLAYOUT, name="K%d" % i)
                qtext = ",".join(forms.ctxt(x) for x in conds)
                for what, txt in (("bb", text), ("q", qtext)):
                    res.evals += 1
                    try:
                        first = parse_belief_base(txt) if what == "bb" else parse_queries(txt)
                        del first.conditionals[2]
                        first.conditionals[1].index = 99
                        if what == "bb":
                            first.signature.append("zz")
                        first.name = "damaged"
                    except Exception as e:  # noqa: BLE001
                        res.violation(self.id, "bb-node", {"text": txt, "family": "reparse", "config": "parse_belief_base" if what == "bb" else "parse_queries"},
                                      "first parse", drive.exc_obs(e))
                        continue
                    judge_bb(res, self.id, txt, "reparse-after-mutating-the-first-result", what=what)
        elif kind == "bb3":
            cs = scopes.L3PLUS
            for i in range(0, len(cs) - 2, 1):
                conds = [cs[i], cs[(i * 7 + 3) % len(cs)], cs[(i * 11 + 5) % len(cs)]]
                for k in range(NLAYOUT):
                    judge_bb(res, self.id, bb_layout(scopes.SIG3, conds, k, name="K-%d_x" % i), "B3-layout%d" % k)
                judge_bb(res, self.id, ",".join(forms.ctxt(c) for c in conds), "L3-querylist", what="q")
        elif kind == "mutf":
            _k, i, part = task
            toks = tok_nl(MUT_FILES[i])
            for j, (_m, t2) in enumerate(mutations(toks)):
                if j % 4 == part:
                    judge_bb(res, self.id, join_nl(t2), "file%d-mutation" % i, via_file=(j % 8 == part))
        elif kind == "mutq":
            toks = tok_nl(MUT_QUERIES[task[1]])
            for _m, t2 in mutations(toks):
                judge_bb(res, self.id, join_nl(t2), "querylist%d-mutation" % task[1], what="q")
        res.outcomes |= set(obs)
        res.digest = (res.evals, len(res.violations), sorted(res.counters.items()))
        if not res.samples:
            res.samples.append({"task": list(map(str, task))[:3], "evaluations": res.evals,
                                "counters": dict(res.counters)})
        return res

    def coverage_extra(self, agg):
        return {"token_alphabet": TOK, "ast_depth2_formulas": getattr(self, "nd2", None)}

    def replay(self, rec):
        c = rec["case"]
        r = Result()
        if c["config"] == "parse_formula":
            judge_formula(r, self.id, c["text"], c["family"])
        else:
            judge_bb(r, self.id, c["text"], c["family"], what="bb" if c["config"] == "parse_belief_base" else "q", via_file=c.get("via_file", False))
        return {"observed": r.violations[0]["observed"] if r.violations else "no violation", "violates": bool(r.violations)}


CHECK = C10()
