"""E-sched: a controlled double for the `multiprocessing` module object used by inference.inference.multi_inference,
and a replay-from-prefix chooser that enumerates all schedules.

Process.start forks a REAL child (os.fork, so the child gets a private copy of the operator instance and of the
manager's epistemic_state, exactly like the 'fork' start method) that runs the real worker against a recording dict and
sends its writes through a pipe.  The explorer then decides WHEN those writes become visible relative to the parent's
join / is_alive / terminate calls:

  done         the worker finishes before the parent reaches its first join (several such workers: every completion order)
  done-at-join the worker finishes while the parent waits for it in join(timeout)
  late         join(timeout) returns by timeout, the worker finishes before is_alive() is evaluated
  alive-lost   the worker is still alive at is_alive(); terminate() kills it before it wrote anything
  alive-wrote  the worker is still alive at is_alive(); it writes its result just before terminate() takes effect

and, when two or more workers are 'done', in which ORDER they completed (the order of their writes into the shared dict).
"""
import itertools
import os
import pickle

CHOICES = ("done", "done-at-join", "late", "alive-lost", "alive-wrote")


class ReplayDiverged(RuntimeError):
    """A replayed prefix met an observation point it does not fit: the execution is not a function of the choices (some source of
    nondeterminism is not owned by the harness). Always a harness error, never a violation - nobody may swallow it."""


class Chooser:
    """Replay `prefix`, then take alternative 0; records the number of alternatives at every point."""

    def __init__(self, prefix=()):
        self.prefix = list(prefix)
        self.trace = []     # (label, n_alternatives, chosen)

    def choose(self, label, n):
        i = len(self.trace)
        c = self.prefix[i] if i < len(self.prefix) else 0
        if c >= n:
            self.diverged = True
            raise ReplayDiverged("replay diverged at point %d (%s): choice %d of %d" % (i, label, c, n))
        self.trace.append((label, n, c))
        return c


def explore(run, maxdev=None):
    """Enumerate all choice sequences by replay-from-prefix DFS. run(chooser) -> observation.
    maxdev bounds the number of non-default choices (deviations). Yields (choices, trace, observation)."""
    stack = [()]
    while stack:
        prefix = stack.pop()
        ch = Chooser(prefix)
        obs = run(ch)
        if getattr(ch, "diverged", False):
            raise ReplayDiverged("replay of prefix %r diverged (swallowed inside the execution)" % (prefix,))
        if [c for _l, _n, c in ch.trace[:len(prefix)]] != list(prefix):
            raise ReplayDiverged("replay of prefix %r ended after %d points" % (prefix, len(ch.trace)))
        yield [c for _l, _n, c in ch.trace], ch.trace, obs
        for i in range(len(prefix), len(ch.trace)):
            _l, n, _c = ch.trace[i]
            base = [c for _l2, _n2, c in ch.trace[:i]]
            if maxdev is not None and sum(1 for c in base if c) >= maxdev:
                continue
            for alt in range(1, n):
                stack.append(tuple(base + [alt]))


class _Mgr:
    def __init__(self, owner):
        self.owner = owner

    def __enter__(self):
        return self

    def __exit__(self, *a):
        return False

    def dict(self):
        d = {}
        self.owner.dicts.append(d)
        return d


class _Recorder(dict):
    """What the worker writes into, in the child."""


class _Proc:
    def __init__(self, owner, target, args):
        self.owner = owner
        self.target = target
        self.args = args
        self.idx = len(owner.procs)
        owner.procs.append(self)
        self.state = "new"
        self.mode = None
        self.writes = None
        self.crashed = None
        self.pid = None
        self.joined_after_terminate = False
        self.log = []

    def start(self):
        # the shared dict is the third positional argument of _multi_inference_worker
        shared = None
        pos = None
        for j, a in enumerate(self.args):
            if any(a is d for d in self.owner.dicts):
                shared, pos = a, j
        if shared is None:
            raise RuntimeError("double: worker has no shared dict argument")
        self.shared = shared
        r, w = os.pipe()
        marks = [len(ch.trace) for ch in self.owner.extra_choosers]
        pid = os.fork()
        if pid == 0:
            os.close(r)
            rec = _Recorder()
            args = list(self.args)
            args[pos] = rec
            try:
                self.target(*args)
                payload = ("ok", dict(rec))
            except BaseException as e:  # noqa: BLE001 - the real child would die with a traceback
                payload = ("crash", "%s: %s" % (type(e).__name__, str(e)[:200]))
            # observation points answered inside the child are part of the explored execution: ship them back
            payload = payload + ([ch.trace[m:] for ch, m in zip(self.owner.extra_choosers, marks)],)
            try:
                with os.fdopen(w, "wb") as fh:
                    pickle.dump(payload, fh)
            finally:
                os._exit(0)
        os.close(w)
        with os.fdopen(r, "rb") as fh:
            data = fh.read()
        os.waitpid(pid, 0)
        self.pid = pid
        kind, val, child_traces = pickle.loads(data)
        for ch, tr in zip(self.owner.extra_choosers, child_traces):
            ch.trace.extend(tr)
        if kind == "ok":
            self.writes = val
        else:
            self.writes = {}
            self.crashed = val
            self.owner.crashes.append(val)
        self.state = "running"
        self.log.append("start")

    def _deliver(self):
        for k, v in self.writes.items():
            self.shared[k] = v

    def join(self, timeout=None):
        self.log.append("join(%r)" % (timeout,))
        if self.state == "running":
            if timeout is None:
                self._deliver()
                self.state = "finished"
                return
            self.owner.join_timeouts.append(timeout)
            self.owner.decide()
            if self.mode == "done":
                self.state = "finished"      # its writes were delivered when it completed (see SchedMP.decide)
            elif self.mode == "done-at-join":
                self._deliver()              # it completes while the parent is waiting for it in join(timeout)
                self.state = "finished"
            else:
                self.state = "joined-by-timeout"
        elif self.state == "terminated":
            self.joined_after_terminate = True

    def is_alive(self):
        self.log.append("is_alive")
        if self.state == "joined-by-timeout":
            if self.mode == "late":
                self._deliver()
                self.state = "finished"
                return False
            return True
        return self.state in ("running",)

    def terminate(self):
        self.log.append("terminate")
        if self.state == "joined-by-timeout":
            if self.mode == "alive-wrote":
                self._deliver()
            self.state = "terminated"
        elif self.state == "running":
            self.state = "terminated"

    def kill(self):
        self.terminate()

    @property
    def exitcode(self):
        return 0 if self.state == "finished" else None


class SchedMP:
    """Stands in for the module object `mp` in inference.inference."""

    def __init__(self, chooser, extra_choosers=()):
        self.chooser = chooser
        self.extra_choosers = list(extra_choosers)
        self.procs = []
        self.dicts = []
        self.crashes = []
        self.join_timeouts = []
        self.decided = False

    def Manager(self):
        self.decided = False        # every multi_inference call opens its own manager: a new round of workers
        return _Mgr(self)

    def decide(self):
        """At the parent's first join(timeout): fix, for every started worker, how it relates to the parent's
        join/is_alive/terminate (4 modes), and - when several workers complete before the parent looks at them - the ORDER in
        which they completed, i.e. the order in which their writes reached the shared dict."""
        if self.decided:
            return
        self.decided = True
        started = [p for p in self.procs if p.state == "running"]
        for p in started:
            p.mode = CHOICES[self.chooser.choose(("worker", p.idx), len(CHOICES))]
        done = [p for p in started if p.mode == "done"]
        if len(done) >= 2:
            perms = list(itertools.permutations(done))
            done = perms[self.chooser.choose(("completion-order",), len(perms))]
        for p in done:
            p._deliver()

    def Process(self, target=None, args=(), kwargs=None, **kw):
        return _Proc(self, target, tuple(args))

    def leaked(self):
        """Processes the parent left behind: never joined, or terminated without a final join (zombie)."""
        out = []
        for p in self.procs:
            if p.state in ("new", "running", "joined-by-timeout"):
                out.append((p.idx, p.state))
            if p.state == "terminated" and not p.joined_after_terminate:
                out.append((p.idx, "terminated-not-joined"))
        return out


class patched_mp:
    def __init__(self, chooser, extra_choosers=()):
        self.double = SchedMP(chooser, extra_choosers)

    def __enter__(self):
        import inference.inference as II

        self.mod = II
        self.saved = II.mp
        II.mp = self.double
        return self.double

    def __exit__(self, *a):
        self.mod.mp = self.saved
        return False
