"""E-env: environment seams for time budgets and solver give-ups, installed from outside the repository by attribute
replacement.  The explorer (sched.Chooser / sched.explore) answers every observation point:

  deadline   Deadline.expired() / remaining_ms() / remaining_seconds() on a not yet expired Deadline:
             0 = not expired (a huge remaining time), 1 = expired from now on (sticky for that Deadline object)
  optcheck   z3.Optimize.check():
             0 = the real verdict, 1 = unknown and no model, 2 = unknown with a feasible but not optimised model
             (a model of the hard assertions only - what a MaxSAT engine holds when it is cut off),
             3 = unknown from now on for this optimizer (no model)
  sethash    iteration order of sets of Conditional_z3 objects (the z3 back-ends keep falsified conditionals in sets; the
             default hash is the object address, so the order - and with early exits the number of solver calls - changes from
             run to run): the harness gives every Conditional_z3 a small integer hash in order of first use, ascending
             (hash_order=+1) or descending (-1), which makes the iteration order of those sets a choice of the harness
  preptime   the clock read that ends the preprocessing time measurement: 0 = real, 1 = +T seconds, 2 = +2T seconds

Real budgets are set to T = 1000 s so real time never fires; Optimize.set(timeout=...) is recorded, not forwarded."""
import z3

T_BUDGET = 1000


class Env:
    def __init__(self, chooser, with_preptime=False, hash_order=1):
        self.hash_order = hash_order
        self.hash_ids = {}
        self.chooser = chooser
        self.expired = set()        # ids of Deadline objects that have expired
        self.keep = []              # keep Deadline objects alive so ids are not reused
        self.dead_opts = {}         # id(optimizer) -> 'raise' | 'forever' | model
        self.clock_calls = 0
        self.clock_offset = 0
        self.with_preptime = with_preptime
        self.set_timeouts = []
        self.events = []

    def cond_hash(self, cond):
        k = self.hash_ids.setdefault(id(cond), len(self.hash_ids) + 1)
        self.keep.append(cond)
        return k if self.hash_order > 0 else 1000 - k

    # ---- Deadline ----
    def _dl(self, dl, what):
        if id(dl) in self.expired:
            return True
        self.keep.append(dl)
        c = self.chooser.choose(("deadline", what), 2)
        self.events.append(("deadline", what, c))
        if c:
            self.expired.add(id(dl))
            return True
        return False

    # ---- z3.Optimize ----
    def opt_check(self, opt, real_check, *args):
        st = self.dead_opts.get(id(opt))
        if st == "forever":
            return z3.unknown
        self.keep.append(opt)
        c = self.chooser.choose(("optcheck",), 4)
        self.events.append(("optcheck", c))
        if c == 0:
            self.dead_opts.pop(id(opt), None)
            return real_check(opt, *args)
        if c == 1:
            self.dead_opts[id(opt)] = "raise"
        elif c == 2:
            s = z3.Solver()
            s.add(opt.assertions())
            if s.check() == z3.sat:
                self.dead_opts[id(opt)] = ("model", s.model())
            else:
                self.dead_opts[id(opt)] = "raise"
        else:
            self.dead_opts[id(opt)] = "forever"
        return z3.unknown

    def opt_model(self, opt, real_model):
        st = self.dead_opts.get(id(opt))
        if st in ("raise", "forever"):
            raise z3.Z3Exception("model is not available")
        if isinstance(st, tuple):
            return st[1]
        return real_model(opt)

    # ---- clock of inference.inference ----
    def clock(self, real):
        self.clock_calls += 1
        if self.with_preptime and self.clock_calls == 2:
            c = self.chooser.choose(("preptime",), 3)
            self.events.append(("preptime", c))
            self.clock_offset += c * T_BUDGET * 10 ** 9
        return real() + self.clock_offset


class installed:
    """Context manager that installs the seams for one execution."""

    def __init__(self, env):
        self.env = env

    def __enter__(self):
        import inference.deadline as D
        import inference.inference as II
        from inference.conditional_z3 import Conditional_z3

        env = self.env
        self.CZ = Conditional_z3
        self.had_hash = "__hash__" in Conditional_z3.__dict__
        self.old_hash = Conditional_z3.__dict__.get("__hash__")
        Conditional_z3.__hash__ = lambda c: env.cond_hash(c)
        self.D, self.II = D, II
        self.saved = (D.Deadline.expired, D.Deadline.remaining_ms, D.Deadline.remaining_seconds,
                      z3.Optimize.check, z3.Optimize.model, z3.Optimize.set, II.perf_counter_ns)
        real_check, real_model, real_set, real_clock = self.saved[3], self.saved[4], self.saved[5], self.saved[6]
        D.Deadline.expired = lambda dl: env._dl(dl, "expired")
        D.Deadline.remaining_ms = lambda dl: 0 if env._dl(dl, "remaining_ms") else T_BUDGET * 1000
        D.Deadline.remaining_seconds = lambda dl: 0.0 if env._dl(dl, "remaining_seconds") else float(T_BUDGET)
        z3.Optimize.check = lambda opt, *a: env.opt_check(opt, real_check, *a)
        z3.Optimize.model = lambda opt: env.opt_model(opt, real_model)

        def opt_set(opt, *a, **kw):
            if "timeout" in kw:
                env.set_timeouts.append(kw.pop("timeout"))
            if a or kw:
                return real_set(opt, *a, **kw)
        z3.Optimize.set = opt_set
        II.perf_counter_ns = lambda: env.clock(real_clock)
        return env

    def __exit__(self, *a):
        D, II = self.D, self.II
        if self.had_hash:
            self.CZ.__hash__ = self.old_hash
        else:
            del self.CZ.__hash__
        (D.Deadline.expired, D.Deadline.remaining_ms, D.Deadline.remaining_seconds,
         z3.Optimize.check, z3.Optimize.model, z3.Optimize.set, II.perf_counter_ns) = self.saved
        return False
