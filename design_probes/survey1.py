import sys, itertools, time, collections, json
from multiprocessing import Pool
import ref
from ref import V, N, A, O, TOP, BOT

a, b = V("a"), V("b")
F16 = [TOP, BOT, a, N(a), b, N(b), A(a, b), A(a, N(b)), A(N(a), b), A(N(a), N(b)),
       O(a, b), O(a, N(b)), O(N(a), b), O(N(a), N(b)), O(A(a, b), A(N(a), N(b))), O(A(a, N(b)), A(N(a), b))]
SIG = ["a", "b"]
W = list(ref.worlds(SIG))
ALL = (1 << len(W)) - 1
CONDS = [(B, A_) for B in F16 for A_ in F16]
QUERIES = CONDS

def work(args):
    import drv
    conds, weakly = args
    sems = [ref.sem(c, W) for c in conds]
    qsem = [ref.sem(q, W) for q in QUERIES]
    out = []
    if weakly:
        sp = ref.split_ext(sems, ALL)
        cons = sp is not False
    else:
        p = ref.partition(sems, ALL)
        cons = p is not False
    bb = drv.mkbb(SIG, conds)
    qobjs = [drv.mkcond(q) for q in QUERIES]
    res = {}
    for system, pm in drv.CONFIGS:
        if system == "c-inference" and weakly: continue
        r = drv.run_low(bb, system, pm, weakly, qobjs)
        res[(system, pm)] = r
    # reference
    refs = {}
    if cons:
        if weakly:
            part, inf, feas = sp
        else:
            part, feas = p, ALL
        refs["system-z"] = [ref.ref_z(part, sems, q, feas) for q in qsem]
        refs["system-w"] = [ref.ref_w(part, sems, q, feas) for q in qsem]
        refs["lex_inf"] = [ref.ref_lex(part, sems, q, feas) for q in qsem]
        if not weakly:
            refs["p-entailment"] = [ref.ref_p_strict(sems, ALL, q) for q in qsem]
            creps = ref.crep_vectors(sems, ALL, 2 ** (len(sems) - 1) if len(sems) > 1 else 1)
            refs["c-inference"] = [ref.ref_c(creps, q) for q in qsem]
        else:
            fin = [sems[i] for l in part for i in l]
            # restricted to feasible worlds
            def pext(q):
                t = ref.trivial(q, feas)
                if t is not None: return t
                fs = [(v & feas, f & feas) for v, f in fin] + [(q[1] & feas, q[0] & feas)]
                return ref.partition(fs, ALL, feasible=feas) is False
            refs["p-entailment"] = [pext(q) for q in qsem]
    diffs = []
    for (system, pm), r in res.items():
        if not cons:
            if not (isinstance(r, tuple) and r[0] == "PRE_EXC"):
                diffs.append((system, pm, "ACCEPTED_INCONSISTENT", None))
            continue
        if isinstance(r, tuple):
            diffs.append((system, pm, "PRE_EXC", r)); continue
        for qi, (x, y) in enumerate(zip(r, refs[system])):
            if x != y:
                diffs.append((system, pm, qi, (x, y)))
    return (conds, weakly, cons, diffs)

if __name__ == "__main__":
    mode = sys.argv[1]
    if mode == "s1":
        bases = [[c] for c in CONDS]
    elif mode == "s2":
        # reduced alphabet for pairs
        Fr = [a, N(a), b, N(b), A(a, b), O(a, b), O(A(a, N(b)), A(N(a), b)), O(N(a), b)]
        Cr = [(B, A_) for B in Fr for A_ in Fr]
        QUERIES[:] = Cr
        bases = [list(x) for x in itertools.combinations(Cr, 2)]
    tasks = [(bs, wk) for bs in bases for wk in (False, True)]
    t = time.time()
    agg = collections.Counter()
    examples = {}
    ncons = 0
    with Pool(16) as p:
        for conds, weakly, cons, diffs in p.imap_unordered(work, tasks, chunksize=4):
            ncons += cons
            for system, pm, qi, d in diffs:
                kind = qi if isinstance(qi, str) else ("EXC:" + d[0][1] if isinstance(d[0], tuple) else f"impl={d[0]} ref={d[1]}")
                key = (system, pm, weakly, kind)
                agg[key] += 1
                if key not in examples:
                    examples[key] = ([f"({ref.txt(B)}|{ref.txt(A_)})" for B, A_ in conds],
                                     None if isinstance(qi, str) else f"({ref.txt(QUERIES[qi][0])}|{ref.txt(QUERIES[qi][1])})", d)
    print("tasks", len(tasks), "consistent", ncons, "time", round(time.time() - t, 1))
    for k in sorted(agg, key=str):
        print(k, agg[k], examples[k])
