"""Formulas as plain tuples, evaluation over world masks, printing to .cl syntax, conversion to pysmt.

A formula is ('var', name) | ('top',) | ('bot',) | ('not', f) | ('and', f, g) | ('or', f, g).
A world over a signature sig = [x0, x1, ...] is an integer index w in range(2**len(sig)); atom x_i is true
in w iff bit (len(sig)-1-i) of w is set (so the bit string of w read left to right follows the signature,
which is also the convention of inference.preocf world strings).
A set of worlds is an int bit mask (bit w set <=> world w in the set).
"""
import itertools

TOP = ("top",)
BOT = ("bot",)


def V(n):
    return ("var", n)


def N(f):
    return ("not", f)


def A(f, g):
    return ("and", f, g)


def O(f, g):
    return ("or", f, g)


def atoms(f, acc=None):
    if acc is None:
        acc = []
    t = f[0]
    if t == "var":
        if f[1] not in acc:
            acc.append(f[1])
    elif t == "not":
        atoms(f[1], acc)
    elif t in ("and", "or"):
        atoms(f[1], acc)
        atoms(f[2], acc)
    return acc


def nworlds(sig):
    return 1 << len(sig)


def allmask(sig):
    return (1 << (1 << len(sig))) - 1


_VARMASK = {}


def varmask(sig, name):
    key = (tuple(sig), name)
    m = _VARMASK.get(key)
    if m is None:
        n = len(sig)
        i = list(sig).index(name)
        bit = n - 1 - i
        m = 0
        for w in range(1 << n):
            if w >> bit & 1:
                m |= 1 << w
        _VARMASK[key] = m
    return m


def mask(f, sig):
    """Set of worlds over sig (as bit mask) satisfying f. Atoms of f must be in sig."""
    t = f[0]
    if t == "top":
        return allmask(sig)
    if t == "bot":
        return 0
    if t == "var":
        return varmask(sig, f[1])
    if t == "not":
        return allmask(sig) & ~mask(f[1], sig)
    if t == "and":
        return mask(f[1], sig) & mask(f[2], sig)
    if t == "or":
        return mask(f[1], sig) | mask(f[2], sig)
    raise ValueError(f)


def ev(f, assignment):
    t = f[0]
    if t == "top":
        return True
    if t == "bot":
        return False
    if t == "var":
        return assignment[f[1]]
    if t == "not":
        return not ev(f[1], assignment)
    if t == "and":
        return ev(f[1], assignment) and ev(f[2], assignment)
    if t == "or":
        return ev(f[1], assignment) or ev(f[2], assignment)
    raise ValueError(f)


def world_assignment(sig, w):
    n = len(sig)
    return {x: bool(w >> (n - 1 - i) & 1) for i, x in enumerate(sig)}


def world_str(sig, w):
    return format(w, "0%db" % len(sig)) if sig else ""


def bits(m):
    i = 0
    while m:
        if m & 1:
            yield i
        m >>= 1
        i += 1


def popcount(m):
    return bin(m).count("1")


def txt(f, top=True, full=False):
    """.cl syntax. full=True parenthesises every binary node (also at top level)."""
    t = f[0]
    if t == "top":
        return "Top"
    if t == "bot":
        return "Bottom"
    if t == "var":
        return f[1]
    if t == "not":
        return "!" + txt(f[1], False, full)
    if t == "and":
        s = txt(f[1], False, full) + "," + txt(f[2], False, full)
    else:
        s = txt(f[1], False, full) + ";" + txt(f[2], False, full)
    return "(" + s + ")" if (full or not top) else s


def ctxt(c, full=False):
    B, A_ = c
    return "(%s|%s)" % (txt(B, True, full), txt(A_, True, full))


def to_pysmt(f):
    from pysmt.shortcuts import FALSE, TRUE, And, Not, Or, Symbol

    t = f[0]
    if t == "top":
        return TRUE()
    if t == "bot":
        return FALSE()
    if t == "var":
        return Symbol(f[1])
    if t == "not":
        return Not(to_pysmt(f[1]))
    if t == "and":
        return And(to_pysmt(f[1]), to_pysmt(f[2]))
    if t == "or":
        return Or(to_pysmt(f[1]), to_pysmt(f[2]))
    raise ValueError(f)


def from_pysmt(node):
    """pysmt FNode -> tuple formula (n-ary And/Or folded left; Implies/Iff expanded)."""
    if node.is_true():
        return TOP
    if node.is_false():
        return BOT
    if node.is_symbol():
        return V(node.symbol_name())
    if node.is_not():
        return N(from_pysmt(node.arg(0)))
    if node.is_and() or node.is_or():
        args = [from_pysmt(a) for a in node.args()]
        if not args:
            return TOP if node.is_and() else BOT
        f = args[0]
        for g in args[1:]:
            f = A(f, g) if node.is_and() else O(f, g)
        return f
    if node.is_implies():
        return O(N(from_pysmt(node.arg(0))), from_pysmt(node.arg(1)))
    if node.is_iff():
        a, b = from_pysmt(node.arg(0)), from_pysmt(node.arg(1))
        return O(A(a, b), A(N(a), N(b)))
    raise ValueError("unsupported pysmt node %r" % (node,))


def minterm(sig, w):
    f = None
    n = len(sig)
    for i, x in enumerate(sig):
        l = V(x) if w >> (n - 1 - i) & 1 else N(V(x))
        f = l if f is None else A(f, l)
    return f if f is not None else TOP


def dnf(sig, m):
    """Minterm DNF of the world set m (Bottom for the empty set)."""
    f = None
    for w in bits(m):
        t = minterm(sig, w)
        f = t if f is None else O(f, t)
    return f if f is not None else BOT


def cnf(sig, m):
    """Maxterm CNF of the world set m (Top for the full set)."""
    f = None
    n = len(sig)
    for w in range(1 << n):
        if m >> w & 1:
            continue
        cl = None
        for i, x in enumerate(sig):
            l = N(V(x)) if w >> (n - 1 - i) & 1 else V(x)
            cl = l if cl is None else O(cl, l)
        if cl is None:
            cl = BOT
        f = cl if f is None else A(f, cl)
    return f if f is not None else TOP


def sem(cond, sig):
    """(B, A) -> (ver mask, fal mask) over sig."""
    B, A_ = cond
    a = mask(A_, sig)
    b = mask(B, sig)
    return a & b, a & ~b & allmask(sig)


def rename(f, mp):
    t = f[0]
    if t == "var":
        return V(mp.get(f[1], f[1]))
    if t in ("top", "bot"):
        return f
    if t == "not":
        return N(rename(f[1], mp))
    return (t, rename(f[1], mp), rename(f[2], mp))


def depth(f):
    t = f[0]
    if t in ("var", "top", "bot"):
        return 0
    if t == "not":
        return 1 + depth(f[1])
    return 1 + max(depth(f[1]), depth(f[2]))
