#!/bin/bash
# tools/run_all.sh [tier] — run every registered check once, print a one-line summary each (used for multi-seed silence runs)
cd "$(dirname "$0")/.." || exit 2
TIER="${1:-quick}"
rc_all=0
for c in C01 C02 C03 C04 C05 C06 C07 C08 C09 C10 C11 C12 C13 C14 C15 C16 C17 C18 C19 C20; do
  s=$(date +%s)
  out=$(./check $c --tier "$TIER" 2>&1); rc=$?
  e=$(date +%s)
  echo "$c seed=${VERIF_SEED:-0} rc=$rc wall=$((e-s))s $(echo "$out" | grep -E 'evaluations=' | tail -1 | cut -c1-160)"
  echo "$out" | grep -E '^(VIOLATION|HARNESS-ERROR|KNOWN-FINDING)' | cut -c1-200 | head -5
  [ $rc -ne 0 ] && rc_all=1
done
exit $rc_all
