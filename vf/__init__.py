"""Bounded-exhaustive verification framework for jonasphilipp/InfOCF (see /verif/DESIGN.md)."""
