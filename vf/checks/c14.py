"""C14 time budgets never produce an unflagged wrong answer (E-env, deviation-bounded exploration)."""
import itertools

from .. import drive, env, forms, opsem, sched, scopes
from ..forms import A, N, O, V
from ..runner import Check, Result
from .c13 import EXT, STRICT, pick_bases

a, b, c = V("a"), V("b"), V("c")
QUERIES = [(1, (b, a)), (2, (c, A(a, b))), (3, (N(c), O(a, b)))]
T = env.T_BUDGET
BUDGETS = [dict(total_timeout=t, preprocessing_timeout=p, inference_timeout=i) for t in (0, T) for p in (0, T) for i in (0, T)]


def mkq(keys):
    from inference.queries import Queries

    d = dict(QUERIES)
    return Queries({k: drive.mkcond(d[k]) for k in keys})


def rows_of(df):
    out = []
    for i in range(len(df)):
        r = df.iloc[i]
        res = r["result"]
        out.append((int(r["index"]), bool(res) if type(res).__name__ in ("bool", "bool_") else repr(res),
                    bool(r["inference_timed_out"]), bool(r["preprocessing_timed_out"])))
    return out


def execute(conds, cfg, weakly, budget, multi, chooser):
    """One execution: a call with three queries and a later call with one, on the same manager, under the environment
    answers dictated by `chooser`."""
    from inference.inference_manager import InferenceManager

    system, pm = drive.CONFIGS[cfg]
    e = env.Env(chooser, with_preptime=bool(budget["total_timeout"]))
    obs = []
    with env.installed(e):
        mgr = InferenceManager(drive.mkbb(scopes.SIG3, conds), system, pmaxsat_solver=pm or "rc2", weakly=weakly)
        with sched.patched_mp(sched.Chooser(), extra_choosers=[chooser]):
            for keys in ((1, 2, 3), (2,)):
                try:
                    df = mgr.inference(mkq(keys), multi_inference=multi, **budget)
                    obs.append(rows_of(df))
                except BaseException as ex:  # noqa: BLE001
                    if isinstance(ex, (KeyboardInterrupt, SystemExit, MemoryError)):
                        raise
                    obs.append(drive.exc_obs(ex))
    return obs, list(e.events)


def judge(obs, base_obs):
    probs = []
    for ci, (rows, brows) in enumerate(zip(obs, base_obs)):
        if drive.is_exc(rows):
            probs.append("call %d: %s escaped: %s" % (ci + 1, rows[1], rows[2][:60]))
            continue
        if len(rows) != len(brows):
            probs.append("call %d: %d rows, %d expected" % (ci + 1, len(rows), len(brows)))
            continue
        for (k, res, t_out, p_out), (bk, bres, _bt, _bp) in zip(rows, brows):
            if k != bk:
                probs.append("call %d: row key %r, expected %r" % (ci + 1, k, bk))
            if t_out or p_out:
                if res is not False:
                    probs.append("call %d key %r: flagged timed out but answer %r" % (ci + 1, k, res))
            elif res is not bres:
                probs.append("call %d key %r: unflagged answer %r, without budgets %r" % (ci + 1, k, res, bres))
    return probs


class C14(Check):
    id = "C14"
    level = "fault_enumeration"
    rule = ("E-env, deviation-bounded. Budgets are set to T=1000 s so real time never fires; the explorer answers every "
            "observation point itself: Deadline.expired()/remaining_ms()/remaining_seconds() -> expired (sticky), "
            "z3.Optimize.check() -> unknown without model / unknown with a feasible non-optimised model / unknown forever, the "
            "clock read ending the preprocessing measurement -> +T / +2T. Per (base, operator, back-end, mode, budget "
            "configuration in {0,T}^3, sequential / parallel double): the 0-deviation run (counts N observation points, "
            "including those inside forked workers), then EVERY single deviation at every point (thorough: every pair). Each "
            "execution = a call with 3 queries + a later call with 1 on the same manager. Oracle: no exception escapes; every "
            "row is flagged (inference_timed_out or preprocessing_timed_out, answer False) or carries the answer of a run "
            "without budgets; own keys. distinct_nontrivial = distinct (case, deviation) executions in which a deviation "
            "actually changed the observation (some row flagged).")
    assumptions = ["expiry is modelled at the granularity of the code's own observations of the deadline / solver verdicts; "
                   "z3's internal timeout is never armed (Optimize.set(timeout) is recorded, not forwarded)",
                   "operators that never look at the deadline have 0 observation points (reported, not a violation)"]
    audit_tasks = 4

    def tasks(self):
        quick = self.tier == "quick"
        out = []
        sb = pick_bases(self.seed, False, 2 if quick else 3)
        wb = pick_bases(self.seed, True, 1)
        for weakly, bases in ((False, sb), (True, wb)):
            for bi, conds in enumerate(bases):
                for cfg in (EXT if weakly else STRICT):
                    for budget in BUDGETS:
                        out.append((conds, cfg, weakly, budget, False))
                    if bi == 0:
                        for budget in (BUDGETS[7], BUDGETS[1]):
                            out.append((conds, cfg, weakly, budget, True))
        return out

    def run(self, task):
        res = Result()
        conds, cfg, weakly, budget, multi = task
        case0 = {"sig": scopes.SIG3, "conds": [forms.ctxt(x) for x in conds], "conds_f": conds, "config": cfg, "weakly": weakly,
                 "budget": budget, "multi": multi, "tname": "multi" if multi else "seq"}
        base_obs, _ = execute(conds, cfg, weakly, dict(total_timeout=0, preprocessing_timeout=0, inference_timeout=0), False, sched.Chooser())
        maxdev = 1 if self.tier == "quick" else 2
        npoints = None
        dig = []
        for choices, trace, (obs, events) in sched.explore(lambda ch: execute(conds, cfg, weakly, budget, multi, ch), maxdev=maxdev):
            res.evals += 1
            if npoints is None:
                npoints = len(trace)
                res.counters["observation_points_%s" % cfg] += npoints
            dig.append(repr(obs))
            res.outcomes.add(repr(obs))
            probs = judge(obs, base_obs)
            dev = [(i, trace[i][0], ch) for i, ch in enumerate(choices) if ch]
            # pure per-query budget (no total, no preprocessing budget): every query has its own deadline, so ONE observed
            # expiry can flag at most one row per call; the rows of the other queries must be answered as without budgets
            if (not probs and len(dev) == 1 and dev[0][1][0] == "deadline" and not budget["total_timeout"]
                    and not budget["preprocessing_timeout"] and budget["inference_timeout"]):
                for ci, rows in enumerate(obs):
                    if not drive.is_exc(rows) and sum(1 for r in rows if r[2] or r[3]) > 1:
                        probs.append("call %d: one expired per-query deadline flagged %d rows" % (ci + 1, sum(1 for r in rows if r[2] or r[3])))
            if probs:
                res.violation(self.id, "budget", dict(case0, choices=choices, deviations=[[i, list(l), ch] for i, l, ch in dev],
                              point=dev[0][1][0] if dev else "none"), "flagged-or-same rows, no exception",
                              {"calls": obs, "problems": probs[:4]})
            elif dev and any((not drive.is_exc(r)) and any(x[2] or x[3] for x in r) for r in obs):
                res.nontrivial.add(hash((tuple(conds), cfg, weakly, repr(budget), multi, tuple(choices))))
            if dev:
                res.counters["deviation_executions"] += 1
        if npoints == 0:
            res.counters["cases_without_observation_points"] += 1
        res.digest = dig
        res.samples.append({"base": case0["conds"], "config": cfg, "mode": "extended" if weakly else "strict", "budget": budget,
                            "parallel": multi, "observation_points": npoints, "executions": res.evals,
                            "distinct_observations": len(res.outcomes)})
        return res

    def coverage_extra(self, agg):
        return {"budget_configurations": BUDGETS, "max_deviations": 1 if self.tier == "quick" else 2}

    def replay(self, rec):
        cs = rec["case"]
        conds = [opsem.tup(x) for x in cs["conds_f"]]
        base_obs, _ = execute(conds, cs["config"], cs["weakly"], dict(total_timeout=0, preprocessing_timeout=0, inference_timeout=0),
                              False, sched.Chooser())
        obs, events = execute(conds, cs["config"], cs["weakly"], cs["budget"], cs["multi"], sched.Chooser(cs["choices"]))
        probs = judge(obs, base_obs)
        return {"observed": {"calls": obs, "problems": probs}, "violates": bool(probs)}


CHECK = C14()
