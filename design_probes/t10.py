import warnings, logging, traceback, sys
warnings.filterwarnings("ignore"); logging.disable(logging.CRITICAL)
import drv, ref
from ref import *
import z3
from inference import deadline as dl
from inference.queries import Queries
from inference.inference_manager import InferenceManager
a,b,c = V("a"),V("b"),V("c")
SIG=["a","b","c"]
conds=[(a,b),(a,N(b)),(c,N(a)),(N(a),c)]
qs=[(c,a),(N(c),A(a,b)),(b,O(a,c))]
class Env:
    def __init__(self, fire=()): self.n=0; self.fire=set(fire); self.log=[]
    def point(self, kind):
        i=self.n; self.n+=1; self.log.append(kind)
        return i in self.fire
env=None
orig_expired=dl.Deadline.expired; orig_rem=dl.Deadline.remaining_ms; orig_check=z3.Optimize.check
expired_flag=[False]
def expired(self):
    if expired_flag[0]: return True
    if env.point("expired"): expired_flag[0]=True; return True
    return False
def remaining_ms(self):
    return 0 if expired_flag[0] else 10**6
def check(self,*a_):
    if env.point("check"): return z3.unknown
    return orig_check(self,*a_)
dl.Deadline.expired=expired; dl.Deadline.remaining_ms=remaining_ms; z3.Optimize.check=check
def run(system,pm,fire=()):
    global env
    env=Env(fire); expired_flag[0]=False
    bb=drv.mkbb(SIG,conds)
    qd={k:drv.mkcond(q) for k,q in enumerate(qs,1)}
    try:
        m=InferenceManager(bb,system,pmaxsat_solver=pm)
        df=m.inference(Queries(qd), inference_timeout=1000, preprocessing_timeout=1000)
        return list(zip(df['result'],df['inference_timed_out'],df['preprocessing_timed_out'])), env.n
    except BaseException as e:
        return ("EXC",type(e).__name__,str(e)[:60]), env.n
for system,pm in drv.CONFIGS:
    base,n=run(system,pm)
    print(system,pm,"points",n,base)
    bad=0
    for i in range(n):
        r,_=run(system,pm,[i])
        ok = not isinstance(r,tuple) or r[0]!="EXC"
        if ok:
            ok = all((t or p_) and res==False or (res==bres) for (res,t,p_),(bres,_,_) in zip(r,base))
        if not ok:
            bad+=1
            if bad<=3: print("   fire",i,env.log[i],r)
    print("   bad",bad,"of",n)
