"""Reference semantics by brute force over worlds ("boring on purpose": no z3, no pysat, no pysmt).

Conventions: a conditional is reduced to sems[i] = (ver, fal), two world bit masks (see forms.sem).  `full`
is the mask of all worlds.  A query is a pair q = (V, F) = (models of A&B, models of A&!B).
"""
import itertools

from .forms import bits

INF = float("inf")


# ---------------------------------------------------------------------------------------------------------
# tolerance partition
# ---------------------------------------------------------------------------------------------------------
def partition(sems, full, extended=False, feasible=None, idx=None):
    """Ordered tolerance partition as list of lists of indices into sems, or False.

    strict: False if some non-empty remainder has no tolerated member.
    extended: when nothing is tolerated, the remainder becomes the last (infinity) layer iff some world
    falsifies none of it, else False; strongly consistent bases get an empty infinity layer appended.
    `feasible` restricts the worlds considered (default: all)."""
    if feasible is None:
        feasible = full
    rem = list(range(len(sems))) if idx is None else list(idx)
    part = []
    while rem:
        ok = feasible
        for i in rem:
            ok &= ~sems[i][1]
        layer = [i for i in rem if sems[i][0] & ok]
        if not layer:
            if extended:
                if ok == 0:
                    return False
                part.append(rem)
                return part
            return False
        part.append(layer)
        rem = [i for i in rem if i not in layer]
    if extended:
        part.append([])
    return part


def split_ext(sems, full):
    """Extended partition split into (finite layers, infinity layer, feasible world mask), or False."""
    p = partition(sems, full, extended=True)
    if p is False:
        return False
    inf = p[-1]
    feas = full
    for i in inf:
        feas &= ~sems[i][1]
    return p[:-1], inf, feas


def classify(sems, full):
    """'strong' | 'weak-finite' (weakly consistent, >=1 finite layer, non-empty infinity layer) |
    'weak-nofinite' (weakly consistent, every conditional in the infinity layer) | 'inconsistent' | 'empty'."""
    if not sems:
        return "empty"
    if partition(sems, full) is not False:
        return "strong"
    s = split_ext(sems, full)
    if s is False:
        return "inconsistent"
    return "weak-finite" if s[0] else "weak-nofinite"


# ---------------------------------------------------------------------------------------------------------
# operators (strict definitions; `feas` restricts to feasible worlds for the extended variants)
# ---------------------------------------------------------------------------------------------------------
def trivial(q, feas):
    """The vacuity rules: no feasible model of A, or none of A&!B -> True; A&!B feasible but A&B not -> False."""
    v, f = q[0] & feas, q[1] & feas
    if f == 0:
        return True
    if v == 0:
        return False
    return None


def zrank(part, sems, w):
    r = 0
    for li, layer in enumerate(part):
        for i in layer:
            if sems[i][1] >> w & 1:
                r = li + 1
    return r


def ref_z(part, sems, q, feas):
    t = trivial(q, feas)
    if t is not None:
        return t
    rv = min(zrank(part, sems, w) for w in bits(q[0] & feas))
    rf = min(zrank(part, sems, w) for w in bits(q[1] & feas))
    return rv < rf


def falsets(part, sems, w):
    return tuple(frozenset(i for i in layer if sems[i][1] >> w & 1) for layer in part)


def w_less(a, b):
    """a <_w b for tuples of falsification sets (index 0 = lowest layer): going from the highest layer down,
    equal until a layer where a's set is a proper subset of b's."""
    for x, y in zip(reversed(a), reversed(b)):
        if x == y:
            continue
        return x < y
    return False


def ref_w(part, sems, q, feas):
    t = trivial(q, feas)
    if t is not None:
        return t
    vs = [falsets(part, sems, w) for w in bits(q[0] & feas)]
    fs = [falsets(part, sems, w) for w in bits(q[1] & feas)]
    return all(any(w_less(v, f) for v in vs) for f in fs)


def lexvec(part, sems, w):
    return tuple(len(x) for x in reversed(falsets(part, sems, w)))


def ref_lex(part, sems, q, feas):
    t = trivial(q, feas)
    if t is not None:
        return t
    mv = min(lexvec(part, sems, w) for w in bits(q[0] & feas))
    mf = min(lexvec(part, sems, w) for w in bits(q[1] & feas))
    return mv < mf


def ref_p(sems, full, q, feas=None, fin=None):
    """p-entailment: D u {(!B|A)} has no tolerance partition (restricted to feasible worlds / finite
    conditionals `fin` in the extended case)."""
    if feas is None:
        feas = full
    t = trivial(q, feas)
    if t is True:
        return True
    idx = list(range(len(sems))) if fin is None else list(fin)
    ext = list(sems) + [(q[1], q[0])]
    return partition(ext, full, feasible=feas, idx=idx + [len(sems)]) is False


def crep_box(sems, full, bound):
    """All c-representations with impacts in {0..bound}^n: list of (eta, ranks per world)."""
    n = len(sems)
    nW = full.bit_length()
    falby = [[i for i in range(n) if sems[i][1] >> w & 1] for w in range(nW)]
    vw = [list(bits(s[0])) for s in sems]
    fw = [list(bits(s[1])) for s in sems]
    out = []
    for eta in itertools.product(range(bound + 1), repeat=n):
        k = [sum(eta[i] for i in falby[w]) for w in range(nW)]
        ok = True
        for i in range(n):
            if not vw[i]:
                ok = False
                break
            if fw[i] and not (min(k[w] for w in vw[i]) < min(k[w] for w in fw[i])):
                ok = False
                break
        if ok:
            out.append((eta, k))
    return out


def crep_bound(n):
    return 1 << max(0, n - 1)


def ref_c(creps, q, full):
    t = trivial(q, full)
    if t is not None:
        return t
    vw = list(bits(q[0]))
    fw = list(bits(q[1]))
    for _eta, k in creps:
        if not min(k[w] for w in vw) < min(k[w] for w in fw):
            return False
    return True


def pareto_min(vectors):
    vs = sorted(set(vectors))
    out = []
    for v in vs:
        if not any(u != v and all(a <= b for a, b in zip(u, v)) for u in vs):
            out.append(v)
    return out


# ---------------------------------------------------------------------------------------------------------
# "accepted by every ranking model": fully definitional p-entailment over all weak orders (small nW only)
# ---------------------------------------------------------------------------------------------------------
def weak_orders(n):
    for k in range(1, n + 1):
        for r in itertools.product(range(k), repeat=n):
            if len(set(r)) == k:
                yield r


def rank_accepts(rank, c, extended=False):
    v = [rank[w] for w in bits(c[0])]
    f = [rank[w] for w in bits(c[1])]
    mv = min(v) if v else INF
    mf = min(f) if f else INF
    if extended:
        return mv < mf or (mv == INF and mf == INF)
    return mv < mf


def ref_p_models(sems, nW, q, extended=False):
    """(B|A) accepted by every ranking model of D (rankings = weak orders over worlds; extended: some worlds may
    carry rank infinity, a conditional with k(A)=inf counts as accepted).  Strict-mode vacuity (A&!B
    unsatisfiable) is the caller's business."""
    ws = list(range(nW))
    subsets = [()] if not extended else [s for k in range(nW) for s in itertools.combinations(ws, k)]
    for infset in subsets:
        fin = [w for w in ws if w not in infset]
        for r in weak_orders(len(fin)):
            rank = [INF] * nW
            for w, x in zip(fin, r):
                rank[w] = x
            if all(rank_accepts(rank, c, extended) for c in sems):
                if not rank_accepts(rank, q, extended):
                    return False
    return True


# ---------------------------------------------------------------------------------------------------------
# a base prepared once, asked many queries
# ---------------------------------------------------------------------------------------------------------
class RefBase:
    """Reference view of a base: sems over a world signature, partitions, classification."""

    def __init__(self, sems, full):
        self.sems = list(sems)
        self.full = full
        self.n = len(sems)
        self.cls = classify(self.sems, full)
        self.part = partition(self.sems, full) if self.cls == "strong" else None
        s = split_ext(self.sems, full) if self.cls in ("strong", "weak-finite", "weak-nofinite") else False
        if s is not False:
            self.fin, self.inf, self.feas = s
        else:
            self.fin = self.inf = self.feas = None
        self._creps = None

    def creps(self):
        if self._creps is None:
            self._creps = crep_box(self.sems, self.full, crep_bound(self.n))
        return self._creps

    def answer(self, system, q, extended):
        """Reference answer of operator `system` to query q = (V, F) masks; None if the base is not accepted."""
        if extended:
            if self.feas is None:
                return None
            part, feas = self.fin, self.feas
            if system == "p-entailment":
                fin_idx = [i for l in part for i in l]
                return ref_p(self.sems, self.full, q, feas=feas, fin=fin_idx)
        else:
            if self.part is None:
                return None
            part, feas = self.part, self.full
            if system == "p-entailment":
                return ref_p(self.sems, self.full, q)
        if system == "system-z":
            return ref_z(part, self.sems, q, feas)
        if system == "system-w":
            return ref_w(part, self.sems, q, feas)
        if system == "lex_inf":
            return ref_lex(part, self.sems, q, feas)
        if system == "c-inference":
            if extended:
                return None
            return ref_c(self.creps(), q, self.full)
        raise ValueError(system)

    def wtype(self, w):
        return tuple(1 if s[0] >> w & 1 else (2 if s[1] >> w & 1 else 0) for s in self.sems)


def structure(sems, nW):
    """Conditional structure: set of realised world types modulo permutation of the conditionals."""
    n = len(sems)
    vecs = {tuple(1 if s[0] >> w & 1 else (2 if s[1] >> w & 1 else 0) for s in sems) for w in range(nW)}
    if n <= 1:
        return tuple(sorted(vecs))
    best = None
    for perm in itertools.permutations(range(n)):
        t = tuple(sorted(tuple(v[i] for i in perm) for v in vecs))
        if best is None or t < best:
            best = t
    return best


def tie_rich(part, sems, q, feas):
    """True iff deciding q = (V, F) by the layer-wise recursions of System W / lexicographic inference meets, in a layer
    above the lowest one, a tie with >= 2 tied inclusion-minimal falsification sets (W) or >= 2 minimum-cardinality sets on
    one side at equal cardinality (lex). Used only to SELECT queries that exercise the tie handling; never as an oracle."""
    def rec(li, vw, fw):
        if li < 1 or not vw or not fw:
            return False
        layer = part[li]
        fs = lambda w: frozenset(i for i in layer if sems[i][1] >> w & 1)   # noqa: E731
        fv = {}
        ff = {}
        for w in vw:
            fv.setdefault(fs(w), []).append(w)
        for w in fw:
            ff.setdefault(fs(w), []).append(w)
        minv = {x for x in fv if not any(y < x for y in fv)}
        minf = {x for x in ff if not any(y < x for y in ff)}
        ties = minv & minf
        if len(ties) >= 2:
            return True
        cv = min(len(x) for x in fv)
        cf = min(len(x) for x in ff)
        if cv == cf:
            mv = [x for x in fv if len(x) == cv]
            mf = [x for x in ff if len(x) == cf]
            if len(mv) >= 2 or len(mf) >= 2:
                return True
            if rec(li - 1, fv[mv[0]], ff[mf[0]]):
                return True
        for x in ties:
            if rec(li - 1, fv[x], ff[x]):
                return True
        return False
    from .forms import bits as _bits

    return rec(len(part) - 1, list(_bits(q[0] & feas)), list(_bits(q[1] & feas)))
