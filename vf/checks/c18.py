"""C18 ranking-function operations obey their defining laws for every ranking."""
import itertools

from .. import drive, forms, opsem, scopes
from ..forms import BOT, TOP, A, N, O, V
from ..runner import Check, Result

SIG1 = ["a"]


def mk_custom(sig, table):
    from inference.preocf import PreOCF

    ranks = {forms.world_str(sig, w): r for w, r in enumerate(table)}
    return PreOCF.init_custom(ranks, signature=list(sig))


def formulas_for(sig, quick):
    if len(sig) == 1:
        x = V(sig[0])
        return [x, N(x), TOP, BOT, O(x, N(x)), A(x, N(x)), N(N(x))]
    if len(sig) == 2:
        mp = {"a": sig[0], "b": sig[1]}
        return [forms.rename(f, mp) for f in scopes.F2 + scopes.F2S]
    if len(sig) == 3:
        ms = range(0, 256, 9) if quick else range(0, 256, 3)
    else:       # 4+ atoms: a fixed stride sample of the 2^(2^n) truth functions
        top = 1 << (1 << len(sig))
        ms = range(1, top, top // (12 if quick else 60) + 1)
    out = []
    for m in ms:
        out.append(forms.dnf(sig, m))
        if m % 2:
            out.append(forms.cnf(sig, m))
    return out


def conds_for(sig, quick):
    if len(sig) == 1:
        fs = formulas_for(sig, quick)[:4]
        return [(B, A_) for A_ in fs for B in fs]
    if len(sig) == 2:
        return scopes.semclass_reps(scopes.C2, sig) + scopes.C2S[::17]
    if len(sig) >= 4:
        full = forms.allmask(sig)
        out = [(V(sig[1]), V(sig[0])), (N(V(sig[3])), A(V(sig[0]), V(sig[2]))), (O(V(sig[2]), V(sig[3])), N(V(sig[1]))), (V(sig[0]), BOT)]
        for v, f in [(1, full & ~1), (0x00F0, 0x0F00), (0x8000, 0x0001), (0x5555 & full, 0xAAAA & full), (0, 1)]:
            out.append(scopes.render_query(sig, (v & full, f & full & ~v)))
        return out
    out = list(scopes.L3[::3]) + scopes.literal_queries3()[24::5]
    sems = []
    for v, f in [(0b00000001, 0b10000000), (0b00111100, 0b11000011), (0b00010000, 0b00001000), (0b01010101, 0b10101010), (0, 0b1), (0b1, 0)]:
        out.append(scopes.render_query(sig, (v, f)))
    return out


def obs(fn):
    try:
        return fn()
    except Exception as e:  # noqa: BLE001
        return drive.exc_obs(e)


def check_laws(res, prop, sig, ranks, make, quick, label):
    """ranks: reference {world str: rank}; make(): fresh implementation object with these ranks."""
    from inference.preocf import ranks2tpo, tpo2ranks

    n = len(sig)
    nW = 1 << n
    ws = [forms.world_str(sig, w) for w in range(nW)]
    rk = [ranks[w] for w in ws]
    case = {"sig": list(sig), "ranks": dict(ranks), "config": label}
    o = make()
    # 1. formula rank = least rank of the models, None without models
    for f in formulas_for(sig, quick):
        m = forms.mask(f, sig)
        exp = min((rk[w] for w in forms.bits(m)), default=None)
        got = obs(lambda: o.formula_rank(forms.to_pysmt(f)))
        res.evals += 1
        if got != exp:
            res.violation(prop, "formula-rank", dict(case, formula=forms.txt(f), formula_f=f), exp, got)
        elif m and m != forms.allmask(sig):
            res.nontrivial.add(hash((label, tuple(rk), "fr", m)))
    # 2. acceptance
    for cnd in conds_for(sig, quick):
        v, f = forms.sem(cnd, sig)
        rv = min((rk[w] for w in forms.bits(v)), default=None)
        rf = min((rk[w] for w in forms.bits(f)), default=None)
        exp = rv is not None and (rf is None or rv < rf)
        got = obs(lambda: o.conditional_acceptance(drive.mkcond(cnd)))
        res.evals += 1
        if got is not exp:
            res.violation(prop, "acceptance", dict(case, query=forms.ctxt(cnd), query_f=cnd), exp, got)
        elif v and f:
            res.nontrivial.add(hash((label, tuple(rk), "acc", v, f)))
    # 3. marginalisation: every proper non-empty subset of atoms removed
    for k in range(1, n):
        for drop in itertools.combinations(sig, k):
            keep = [x for x in sig if x not in drop]
            exp = {}
            for w in range(nW):
                s = ws[w]
                key = "".join(s[i] for i in range(n) if sig[i] not in drop)
                exp[key] = rk[w] if key not in exp else min(exp[key], rk[w])

            def run():
                m = o.marginalize(list(drop))
                return {"signature": list(m.signature), "ranks": dict(m.ranks)}
            got = obs(run)
            res.evals += 1
            if got != {"signature": keep, "ranks": exp}:
                res.violation(prop, "marginalize", dict(case, drop=list(drop)), {"signature": keep, "ranks": exp}, got)
                continue
            res.nontrivial.add(hash((label, tuple(rk), "marg", drop)))
            # ranks of formulas over the remaining atoms are preserved
            mo = o.marginalize(list(drop))
            for f in formulas_for(keep, quick)[:12]:
                e = min((rk[w] for w in forms.bits(forms.mask(f, sig))), default=None)
                g = obs(lambda: mo.formula_rank(forms.to_pysmt(f)))
                res.evals += 1
                if g != e:
                    res.violation(prop, "marginalize-formula-rank", dict(case, drop=list(drop), formula=forms.txt(f), formula_f=f), e, g)
    # 4. conditionalisation
    for f in formulas_for(sig, quick)[:: (1 if n < 3 else 3)]:
        m = forms.mask(f, sig)
        exp = {ws[w]: rk[w] for w in forms.bits(m)}
        g1 = obs(lambda: dict(o.compute_conditionalization(forms.to_pysmt(f))))
        g2 = obs(lambda: dict(o.conditionalize_existing_ranks(forms.to_pysmt(f))))
        res.evals += 2
        if g1 != exp:
            res.violation(prop, "conditionalization", dict(case, formula=forms.txt(f), formula_f=f, which="compute"), exp, g1)
        if g2 != exp:
            res.violation(prop, "conditionalization", dict(case, formula=forms.txt(f), formula_f=f, which="existing"), exp, g2)
    # 4b. two formulas that agree down to nesting depth 6 and differ below, one after the other on the same object
    if n >= 2:
        x, y = V(sig[0]), V(sig[1])
        d1, d2 = y, N(y)
        for _ in range(6):
            d1, d2 = A(x, d1), A(x, d2)
        for f in (d1, d2, O(d1, N(x)), O(d2, N(x))):
            m = forms.mask(f, sig)
            exp = {ws[w]: rk[w] for w in forms.bits(m)}
            g1 = obs(lambda: dict(o.compute_conditionalization(forms.to_pysmt(f))))
            g2 = obs(lambda: dict(o.conditionalize_existing_ranks(forms.to_pysmt(f))))
            g3 = obs(lambda: o.formula_rank(forms.to_pysmt(f)))
            res.evals += 3
            if g1 != exp or g2 != exp:
                res.violation(prop, "conditionalization", dict(case, formula=forms.txt(f), formula_f=f, which="deep"), exp, g1 if g1 != exp else g2)
            if g3 != min(exp.values(), default=None):
                res.violation(prop, "formula-rank", dict(case, formula=forms.txt(f), formula_f=f, deep=True), min(exp.values(), default=None), g3)
    # 5. tpo round trip
    tpo = obs(lambda: ranks2tpo(dict(ranks)))
    distinct = sorted(set(rk))
    exp_tpo = [{ws[w] for w in range(nW) if rk[w] == r} for r in distinct]
    res.evals += 1
    if tpo != exp_tpo:
        res.violation(prop, "ranks2tpo", case, [sorted(x) for x in exp_tpo], [sorted(x) for x in tpo] if isinstance(tpo, list) else tpo)
    else:
        for name, fn in (("identity", lambda i: i), ("own-ranks", lambda i: distinct[i]), ("2i+1", lambda i: 2 * i + 1), ("constant", lambda i: 5)):
            back = obs(lambda: tpo2ranks(tpo, fn))
            res.evals += 1
            exp_back = {ws[w]: fn(distinct.index(rk[w])) for w in range(nW)}
            if back != exp_back:
                res.violation(prop, "tpo2ranks", dict(case, numbering=name), exp_back, back)
            elif name == "own-ranks" and back != dict(ranks):
                res.violation(prop, "tpo-roundtrip", dict(case, numbering=name), dict(ranks), back)
        if len(distinct) > 1:
            res.nontrivial.add(hash((label, tuple(rk), "tpo")))
    res.outcomes.add(tuple(distinct))


class C18(Check):
    id = "C18"
    level = "exploration"
    rule = ("E-in. Rank tables: ALL total assignments worlds -> {0..3} over 1 atom (16) and 2 atoms (256), over 3 atoms all "
            "assignments -> {0,1} (256) plus all tables with <=2 non-zero worlds and ranks <=3 (thorough: all 256 0/1 tables and every third of the 6 561 "
            "tables -> {0..2}), over 4 atoms four fixed asymmetric tables (thorough: plus all 120 tables with two non-zero worlds); custom objects built with init_custom, plus System Z objects for the structure representatives of "
            "pairs over {a,b} (both modes). Per table: formula_rank for every formula of the family (all 16 truth functions in "
            "two syntactic forms; DNF/CNF of truth functions over 3 atoms), conditional_acceptance for every conditional of "
            "the family, marginalize for every proper non-empty atom subset (table and formula ranks over the remaining "
            "atoms), both conditionalisations for every formula, ranks2tpo and tpo2ranks under four layer numberings; oracle: "
            "the five laws evaluated by brute force. distinct_nontrivial = distinct (table, operation, argument) with a "
            "non-degenerate argument.")
    assumptions = ["signatures of 1-4 atoms (the property mentions up to 6); over 4 atoms only a fixed family of tables", "reference arithmetic in vf/checks/c18.py"]

    def tasks(self):
        quick = self.tier == "quick"
        out = []
        t1 = list(itertools.product(range(4), repeat=2))
        out.append(("custom", SIG1, t1))
        t2 = list(itertools.product(range(4), repeat=4))
        for i in range(0, len(t2), 8):
            out.append(("custom", scopes.SIG2, t2[i:i + 8]))
        if quick:
            t3 = list(itertools.product(range(2), repeat=8))[self.seed % 2::2]
            base = [0] * 8
            for i, j in itertools.combinations(range(8), 2):
                for r1, r2 in ((1, 2), (3, 1)):
                    t = list(base)
                    t[i], t[j] = r1, r2
                    if (i + j) % 2 == 0:
                        t3.append(tuple(t))
        else:       # all 256 tables -> {0,1} and every third (residue by seed) of the 6 561 tables -> {0,1,2}
            all3 = list(itertools.product(range(3), repeat=8))
            t3 = list(itertools.product(range(2), repeat=8)) + [t for t in all3[self.seed % 3::3] if 2 in t]
        self.n3 = len(t3)
        for i in range(0, len(t3), 4):
            out.append(("custom", scopes.SIG3, t3[i:i + 4]))
        sig4 = ["a", "b", "c", "d"]
        t4 = [tuple((i * 7 + 3) % 4 for i in range(16)), tuple(0 if i in (3, 12) else 2 for i in range(16)), tuple(i % 3 for i in range(16)),
              tuple(1 if i < 8 else 0 for i in range(16))]
        if not quick:
            base = [0] * 16
            for i, j in itertools.combinations(range(16), 2):
                t = list(base)
                t[i], t[j] = 1, 3
                t4.append(tuple(t))
        for i in range(0, len(t4), 2):
            out.append(("custom", sig4, t4[i:i + 2]))
        reps, _ = scopes.structural_scope(scopes.C2_sub(), scopes.SIG2, 2, ("strong", "weak-finite", "weak-nofinite"), self.seed, 1, minsize=2)
        for i in range(0, len(reps), 4):
            out.append(("sysz", [r[0] for r in reps[i:i + 4]]))
        return out

    def run(self, task):
        res = Result()
        quick = self.tier == "quick"
        if task[0] == "custom":
            _k, sig, tables = task
            for t in tables:
                ranks = {forms.world_str(sig, w): r for w, r in enumerate(t)}
                check_laws(res, self.id, sig, ranks, lambda: mk_custom(sig, t), quick, "custom")
            res.samples.append({"signature": sig, "table": list(tables[0]), "tables_in_task": len(tables)})
        else:
            from .c16 import InputMutated, build, ref_ranks

            for conds in task[1]:
                for ext in (False, True):
                    rr = ref_ranks(scopes.SIG2, conds, [], ext)
                    if rr is None:
                        continue

                    def make():
                        o = build(scopes.SIG2, conds, [], ext)
                        o.compute_all_ranks()
                        return o
                    try:
                        check_laws(res, self.id, scopes.SIG2, rr[0], make, quick, "system-z")
                    except InputMutated:
                        res.counters["system_z_objects_skipped_input_mutated"] += 1     # reported by C16
            res.samples.append({"system_z_bases": [[forms.ctxt(x) for x in cs] for cs in task[1][:1]]})
        res.digest = (res.evals, len(res.violations))
        return res

    def coverage_extra(self, agg):
        return {"tables_3atoms": self.n3}

    def replay(self, rec):
        c = rec["case"]
        r = Result()
        sig = c["sig"]
        ranks = c["ranks"]
        t = [ranks[forms.world_str(sig, w)] for w in range(1 << len(sig))]
        check_laws(r, self.id, sig, ranks, lambda: mk_custom(sig, t), self.tier == "quick", "custom")
        same = [v for v in r.violations if v["kind"] == rec["kind"]]
        return {"observed": [v["observed"] for v in same[:2]], "violates": bool(same)}


CHECK = C18()
