"""C11 answers do not depend on the chosen solver back-end (differential over all selectable pmaxsat_solver values)."""
import os

from .. import corpus, drive, forms, opsem, scopes
from ..runner import Check, Result
from .c15 import ENGINES_QUICK, usable_engines


def backends(tier):
    eng = [e for e in ENGINES_QUICK if e == "rc2" or e in usable_engines()] if tier == "quick" else ["rc2"] + usable_engines()
    return ["z3"] + eng


def configs(tier, weakly):
    out = []
    for system in ("system-w", "lex_inf"):
        out += ["%s@%s" % (system, b) for b in backends(tier)]
    if not weakly:
        out += ["c-inference@%s" % b for b in backends(tier) if b != "z3"]
    return out


def compare(res, prop, answers, describe):
    groups = {}
    for cfg, a in answers.items():
        groups.setdefault(cfg.split("@")[0], []).append((cfg, a))
    for system, lst in groups.items():
        ref_cfg, ref_a = lst[0]
        n = len(ref_a)
        for cfg, a in lst[1:]:
            for i in range(n):
                res.evals += 1
                res.outcomes.add((system, repr(a[i])[:12]))
                if a[i] != ref_a[i]:
                    case = describe(i)
                    case["config"] = cfg
                    case["reference_config"] = ref_cfg
                    res.violation(prop, "backend-disagreement", case, {ref_cfg: ref_a[i]}, {cfg: a[i]})
        vals = {repr(x) for _c, a in lst for x in a}
        if len(vals) > 1:
            res.nontrivial.add(hash((describe(0)["base"], describe(0)["weakly"], system)))


class C11(Check):
    id = "C11"
    level = "exploration"
    rule = ("E-in, differential: System W and lexicographic inference under every selectable pmaxsat_solver (z3, rc2 and "
            "rc2-<engine> for the SAT engines that a run-time probe finds usable; quick: g3, cd19, m22, mcb), c-inference "
            "under every rc2 engine, strict and extended mode, on: structure representatives of the pairs over {a,b} x 21 "
            "semantic queries, structure representatives of <=4-subsets of literal conditionals over {a,b,c} x 36 literal "
            "queries, random_large families 6_6..20_20 (2 bases per family chosen by the seed; thorough 10) with their query "
            "files + 48 literal queries, and the birds/AO knowledge bases. Oracle: equal answers (and equal exceptions) "
            "across back-ends of the same operator. distinct_nontrivial = distinct (base, mode, operator) whose answer "
            "vector is not constant.")
    assumptions = ["engines that are not installed (probe fails) cannot be explored: listed in the evidence",
                   "compares the implementation with itself"]
    audit_tasks = 4

    def tasks(self):
        quick = self.tier == "quick"
        seed = self.seed
        out = []
        reps2, _ = scopes.structural_scope(scopes.C2_sub(), scopes.SIG2, 2, ("strong", "weak-finite", "weak-nofinite"), seed, 1, minsize=2)
        q2 = [list(q) for q in scopes.semclass_reps(scopes.C2, scopes.SIG2)[1::4]]
        for conds, cls in reps2:
            out.append(("small", scopes.SIG2, conds, cls, q2))
        q3 = [list(q) for q in scopes.literal_queries3()[::2]]
        for want, step in ((("strong",), 3 if quick else 1), (("weak-finite", "weak-nofinite"), 2 if quick else 1)):
            reps3, _ = scopes.structural_scope(scopes.L3, scopes.SIG3, 4, want, seed, 1)
            for conds, cls in reps3[seed % step::step]:
                out.append(("small", scopes.SIG3, conds, cls, q3))
        repsm, _ = scopes.structural_scope(scopes.L3MIX, scopes.SIG3, 2, ("strong",), seed, 1, minsize=2)
        for conds, cls in repsm:       # conjunctive consequents: clause count and conditional count differ
            if any(x[0][0] == "and" for x in conds):
                out.append(("small", scopes.SIG3, conds, cls, q3))
        reps2d, _ = scopes.structural_scope(scopes.L3, scopes.SIG3, 2, ("strong",), seed, 1, minsize=2)
        for pair, _cls in reps2d:      # the same conditional twice
            out.append(("small", scopes.SIG3, [pair[0], pair[0], pair[1]], "strong", q3))
        self.n_small = len(out)
        per = 2 if quick else 10
        for fam in corpus.SMALL_FAMILIES:
            for j in range(per):
                bbp, qp = corpus.random_large(fam, (seed * per + j + 50) % 100)
                out.append(("file", bbp, qp))
        for bbp, qp in corpus.named_bases():
            if quick and "AO_" in bbp and "24" in bbp:
                continue
            out.append(("file", bbp, qp))
        out.sort(key=lambda t: 0 if t[0] == "file" else 1)
        return out

    def run(self, task):
        res = Result()
        dig = []
        if task[0] == "small":
            _k, sig, conds, cls, qs = task
            base = tuple(forms.ctxt(x) for x in conds)
            for weakly in ((False, True) if cls == "strong" else (True,)):
                t = opsem.make_task(sig, conds, weakly, configs(self.tier, weakly), ("list", qs), cls=cls)
                _rb, qq, answers = opsem.run_impl(t)

                def describe(i, weakly=weakly, qq=qq):
                    return {"base": base, "conds_f": conds, "sig": sig, "weakly": weakly, "query": forms.ctxt(qq[i][0]),
                            "query_f": qq[i][0], "source": "small"}
                compare(res, self.id, answers, describe)
                dig.append(sorted((k, repr(v)) for k, v in answers.items()))
            res.samples.append({"base": list(base), "backends": backends(self.tier)})
        else:
            _k, bbp, qp = task
            rel = os.path.relpath(bbp, corpus.examples_dir())
            bb = corpus.load_bb(bbp)
            qconds = []
            if qp:
                try:
                    qconds += corpus.load_queries(qp)
                except BaseException:  # noqa: BLE001
                    res.counters["query_files_unparsable"] += 1
            qconds += corpus.literal_queries(bb.signature, 4)
            for weakly in (False, True):
                answers = {}
                refused = False
                for cfg in configs(self.tier, weakly):
                    system, pm = cfg.split("@")
                    if system == "c-inference" and len(bb.conditionals) > 20:
                        continue
                    a = drive.ask(corpus.load_bb(bbp), system, pm, weakly, qconds)
                    if all(drive.is_exc(x) and x[1] == "AssertionError" for x in a):
                        refused = True
                        break
                    answers[cfg] = a
                if refused:
                    res.counters["bases_refused"] += 1
                    continue

                def describe(i, weakly=weakly):
                    return {"base": rel, "bb_file": rel, "weakly": weakly, "query": str(qconds[i]), "query_index": i,
                            "query_file": os.path.relpath(qp, corpus.examples_dir()) if qp else None, "source": "corpus"}
                compare(res, self.id, answers, describe)
                dig.append(sorted((k, repr(v)) for k, v in answers.items()))
                res.counters["corpus_bases_%s" % ("ext" if weakly else "strict")] += 1
            res.samples.append({"base": rel, "atoms": len(bb.signature), "queries": len(qconds)})
        res.digest = dig
        return res

    def coverage_extra(self, agg):
        return {"backends": backends(self.tier), "usable_engines_probe": usable_engines(), "small_bases": self.n_small}

    def replay(self, rec):
        c = rec["case"]
        cfgs = [c["reference_config"], c["config"]]
        got = {}
        if c["source"] == "small":
            t = opsem.make_task(c["sig"], c["conds_f"], c["weakly"], cfgs, ("list", [c["query_f"]]))
            _rb, _qq, answers = opsem.run_impl(t)
            got = {k: v[0] for k, v in answers.items()}
        else:
            bbp = os.path.join(corpus.examples_dir(), c["bb_file"])
            bb = corpus.load_bb(bbp)
            qconds = []
            if c.get("query_file"):
                try:
                    qconds += corpus.load_queries(os.path.join(corpus.examples_dir(), c["query_file"]))
                except BaseException:  # noqa: BLE001
                    pass
            qconds += corpus.literal_queries(bb.signature, 4)
            for cfg in cfgs:
                system, pm = cfg.split("@")
                got[cfg] = drive.ask(corpus.load_bb(bbp), system, pm, c["weakly"], [qconds[c["query_index"]]])[0]
        return {"observed": got, "violates": got[cfgs[0]] != got[cfgs[1]]}


CHECK = C11()
