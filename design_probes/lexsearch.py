"""Search (reference-only) for inputs where an all-pairs tie recursion differs from true lex."""
import itertools, sys, time
import ref
from ref import V, N, A, O, TOP

def minimal(sets):
    sets = set(sets)
    return [s for s in sets if not any(t < s for t in sets)]

def alg_lex(part, sems, Hv, Hf, idx):
    layer = part[idx]
    def fs(w): return frozenset(i for i in layer if sems[i][1] >> w & 1)
    mv = minimal(fs(w) for w in ref.bits(Hv)); mf = minimal(fs(w) for w in ref.bits(Hf))
    if not mv: return False
    if not mf: return True
    lv = min(map(len, mv)); lf = min(map(len, mf))
    if lv < lf: return True
    if lf < lv: return False
    for xv in [s for s in mv if len(s) == lv]:
        for xf in [s for s in mf if len(s) == lf]:
            if idx == 0: return False
            Hv2 = 0
            for w in ref.bits(Hv):
                if fs(w) == xv: Hv2 |= 1 << w
            Hf2 = 0
            for w in ref.bits(Hf):
                if fs(w) == xf: Hf2 |= 1 << w
            if not alg_lex(part, sems, Hv2, Hf2, idx - 1): return False
    return True

if __name__ == "__main__":
    nat = int(sys.argv[1]); size = int(sys.argv[2])
    SIG = ["a", "b", "c", "d"][:nat]
    W = list(ref.worlds(SIG)); ALL = (1 << len(W)) - 1
    lits = [V(x) for x in SIG] + [N(V(x)) for x in SIG]
    def at(l): return l[1] if l[0] == "var" else l[1][1]
    ants = lits + [A(l, m) for l, m in itertools.combinations(lits, 2) if at(l) != at(m)]
    CONDS = [(l, m) for l in lits for m in ants if at(l) not in ref.atoms(m)]
    QF = lits + [A(l, m) for l, m in itertools.combinations(lits, 2) if at(l) != at(m)] + [O(l, m) for l, m in itertools.combinations(lits, 2) if at(l) != at(m)] + [TOP]
    QUERIES = [(l, m) for l in lits for m in QF if at(l) not in ref.atoms(m)]
    qsem = [ref.sem(q, W) for q in QUERIES]
    csem = [ref.sem(c, W) for c in CONDS]
    print("conds", len(CONDS), "queries", len(QUERIES))
    t = time.time(); n = 0; found = 0
    for idxs in itertools.combinations(range(len(CONDS)), size):
        sems = [csem[i] for i in idxs]
        p = ref.partition(sems, ALL)
        if p is False or len(p) < 2: continue
        n += 1
        for qi, q in enumerate(qsem):
            if ref.trivial(q, ALL) is not None: continue
            r = ref.ref_lex(p, sems, q, ALL)
            a_ = alg_lex(p, sems, q[0], q[1], len(p) - 1)
            if r != a_:
                found += 1
                if found <= 5:
                    print("DIFF", [f"({ref.txt(CONDS[i][0])}|{ref.txt(CONDS[i][1])})" for i in idxs], f"({ref.txt(QUERIES[qi][0])}|{ref.txt(QUERIES[qi][1])})", "ref", r, "alg", a_, "part", p)
        if time.time() - t > 600: break
    print("bases", n, "diffs", found, "time", round(time.time() - t, 1))
